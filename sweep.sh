#!/bin/bash
# multi-seed sweep of the quick checks on the unchanged tree: every line must say exit=0
# usage: ./sweep.sh <first seed> <count> [props...]
cd "$(dirname "$0")"
first=${1:-100}; count=${2:-10}; shift 2
props=${@:-C17 C05 C15 C04 C19}
for ((s=first; s<first+count; s++)); do
  for p in $props; do
    t0=$(date +%s)
    VERIF_SEED=$s ./verif check $p > .build/tmp/sweep_${p}_$s.out 2>&1
    rc=$?
    echo "seed=$s prop=$p exit=$rc wall=$(( $(date +%s) - t0 ))s $(grep -c '^VIOLATION' .build/tmp/sweep_${p}_$s.out) violations"
    [ $rc -ne 0 ] && grep -E "^VIOLATION|class=|HARNESS|Error" .build/tmp/sweep_${p}_$s.out | head -5
  done
done
