//! C04: rational arithmetic is exact and RBig stays in lowest terms.
//!
//! Three worlds in lockstep: R[k] (RBig), X[k] (Relaxed) and Q[k] (num-rational reference). Every
//! step applies the same operation, in the same call form, to all three; results feed back as operands.
//! After every step: R read-back == reference exactly (sign, reduced numerator/denominator, den > 0,
//! zero = 0/1); X == reference by cross-multiplication with den > 0; division by zero panics in both
//! exactly when the reference divides by zero.

use crate::case::{Case, CaseResult};
use crate::gen::{gen_bits, gen_lit_bits, gen_runcfg};
use crate::ops::Op;
use crate::prng::{run_seed, Rng};
use crate::run::*;
use crate::simalloc;
use crate::view::*;
use crate::world::*;
use num_bigint::BigInt;
use num_integer::Integer;
use num_rational::BigRational;
use num_traits::{One, Signed, Zero};
#[allow(unused_imports)]
use num_traits::One as _One;
use std::panic::{catch_unwind, AssertUnwindSafe};

const MAXB: u64 = if cfg!(miri) { 500 } else { 2048 };

fn slot(rng: &mut Rng) -> u64 {
    rng.below(NP as u64)
}

/// literal for r.lit whose halves share factors from a small prime set
fn factor_lit(rng: &mut Rng) -> Vec<u8> {
    let bits = gen_bits(rng, false).min(900);
    gen_lit_bits(rng, bits.max(2))
}

pub fn gen_case(seed: u64, index: u64) -> Case {
    let rs = run_seed(seed, "C04", index);
    let mut rng = Rng::new(rs);
    let cfg = gen_runcfg(&mut rng);
    let len = 4 + rng.below(28) as usize;
    let mut ops = Vec::with_capacity(len);
    let w_int = 1 + rng.below(3);
    while ops.len() < len {
        let (a, b, d) = (slot(&mut rng), slot(&mut rng), slot(&mut rng));
        let f = {
            let f = rng.below(16);
            if rng.chance(1, 5) && a != b {
                f | 256
            } else {
                f
            }
        };
        let op = match rng.below(55) {
            // reduction of fractions whose parts are far above the pool cap (the gcd takes its long-operand paths);
            // the operation judges its own result and stores nothing
            54 if index % 6 != 0 => Op::new("r.add").a(a).b(b).dst(d).form(f),
            54 => Op::new("rbig.reduce").a(a).b(b).c(slot(&mut rng)).n(rng.below(8) as i64).m(rng.below(1 << 20) as i64).form(rng.below(3)),
            // RBig values that come out of a decoder (fault-free and semantically corrupted encodings)
            52 => Op::new("med.twin").a(a).b(b).dst(d).c(4).form(rng.below(3)).n(rng.below(9) as i64).m(rng.below(60) as i64),
            53 => {
                let mut lit = (rng.below(1 << 16) as u32).to_le_bytes().to_vec();
                lit.push(rng.next() as u8);
                if rng.chance(1, 2) {
                    Op::new("med.serde").a(a).dst(d).c(4).form(rng.below(3)).m(if rng.chance(1, 2) { 0 } else { 1 + rng.below(7) as i64 }).lit(lit)
                } else {
                    Op::new("med.tokens").a(a).b(b).dst(d).c(4).n(rng.next() as i64).m(rng.below(1 << 30) as i64)
                }
            }
            // further producers of RBig values: only the canonical form (and R == X where both exist) is judged
            46 => Op::new(rng.pick(&["r.nearest", "r.simplest"])).a(a).b(b).dst(d).n(rng.below(3) as i64),
            47 => Op::new("r.fromfloat").a(a).dst(d).form(rng.below(2)),
            // (r.fromf form 1 is simplest_from_f64, which exists for RBig only: forms 0 / 2 are the exact conversions)
            48 => {
                if rng.chance(1, 2) {
                    Op::new("r.fromf").dst(d).n(rng.next() as i64).m(rng.below(16) as i64).form(rng.pick(&[0u64, 2, 3]))
                } else {
                    Op::new("r.const").dst(d).n(rng.next() as i64).m(rng.below(1 << 30) as i64).form(rng.below(5))
                }
            }
            49 => Op::new("r.static").dst(d).n(rng.below(9) as i64).form(rng.below(3)),
            50 => Op::new("r.str").a(a).dst(d).n(rng.below(35) as i64).form(rng.below(2)),
            51 => {
                let bits = 1 + rng.below(300) as usize;
                Op::new(rng.pick(&["f.lit", "d.lit"])).dst(d).form(rng.below(3)).n(rng.range(-60, 60)).m(rng.below(200) as i64).lit(gen_lit_bits(&mut rng, bits))
            }
            40 => Op::new("r.round").a(a).dst(d).form(rng.below(5)),
            41 => Op::new(rng.pick(&["r.fract", "r.split"])).a(a).dst(d).form(rng.below(3)),
            42 => Op::new("r.toint").a(a).dst(d),
            43 | 44 => Op::new("r.diveuclid").a(a).b(b).dst(d).form(rng.below(3)),
            45 if rng.chance(1, 3) => Op::new("r.zeroize").a(a),
            45 => Op::new("r.zeroes").a(a).b(b).c(slot(&mut rng)).dst(d).form(rng.below(5)),
            0..=5 => Op::new("r.lit").dst(d).form(rng.below(3)).n(rng.below(5000) as i64).m(rng.below(2) as i64).lit(factor_lit(&mut rng)),
            6 | 7 => {
                // integer operands for the mixed forms and from_parts (small primes and random cofactors)
                let small = rng.chance(1, 2);
                let lit = if small {
                    vec![rng.pick(&[0u8, 1, 2, 3, 4, 6, 8, 9, 12, 30, 210])]
                } else {
                    let b = gen_bits(&mut rng, false).min(700);
                    gen_lit_bits(&mut rng, b)
                };
                if rng.chance(1, 2) {
                    Op::new("i.lit").dst(d).m(rng.below(2) as i64).lit(lit)
                } else {
                    Op::new("u.lit").dst(d).lit(lit)
                }
            }
            8 => Op::new("r.fromparts").a(a).b(b).dst(d).form(rng.below(2)),
            9..=14 => Op::new("r.add").a(a).b(b).dst(d).form(f),
            15..=18 => Op::new("r.sub").a(a).b(b).dst(d).form(f),
            19..=23 => Op::new("r.mul").a(a).b(b).dst(d).form(f),
            24..=26 => Op::new("r.div").a(a).b(b).dst(d).form(f),
            27 | 28 => Op::new("r.rem").a(a).b(b).dst(d).form(f),
            29 | 30 => {
                if w_int == 1 {
                    Op::new("r.add").a(a).b(b).dst(d).form(f)
                } else {
                    Op::new(&format!("r.{}", rng.pick(&["addi", "subi", "muli", "divi", "addu", "subu", "mulu", "divu"]))).a(a).b(b).dst(d).form(rng.below(10))
                }
            }
            31 => Op::new("r.pow").a(a).dst(d).n(rng.below(7) as i64),
            32 => Op::new(&format!("r.{}", rng.pick(&["sqr", "cubic"]))).a(a).dst(d),
            33 => Op::new("r.inv").a(a).dst(d).form(f),
            34 => Op::new(&format!("r.{}", rng.pick(&["neg", "abs", "signum"]))).a(a).dst(d).form(f),
            35 => Op::new("r.fromint").a(a).dst(d).form(rng.below(2)),
            36 => Op::new(&format!("r.{}", rng.pick(&["clone", "clonefrom", "take", "swap", "drop"]))).a(a).b(b).dst(d),
            37 => Op::new("r.mulsign").a(a).dst(d).n(rng.below(2) as i64).form(f),
            38 => Op::new("r.rt").a(a).dst(d).form(rng.below(8)).lit(gen_lit_bits(&mut rng, 9)),
            39 if rng.chance(1, 2) => {
                // the op carries what the text denotes: n / m (m = 0: must be refused), so the reference can judge it
                let n = rng.range(-4000, 4000);
                let dd = rng.pick(&[0i64, 0, 1, 2, 3, 6, 10, 12, 40, -4, -9, 1024, 999]);
                let form = rng.below(2);
                let (text, en, em): (String, i64, i64) = match rng.below(9) {
                    0 => (format!("{}/{}", n, dd), n, dd),
                    1 => (format!("{}", n), n, 1),
                    2 => (format!("{}/{}", n * 6, dd.abs() * 6), n, dd.abs()),
                    3 => (format!("0/{}", dd.abs()), 0, dd.abs()),
                    4 => (format!("+{}/{}", n.abs(), dd), n.abs(), dd),
                    5 if form == 1 => (format!("{:#x}/{:#x}", n.abs(), dd.abs()), n.abs(), dd.abs()),
                    6 if form == 1 => (format!("-{:#o}/{:o}", n.abs(), dd.abs()), -n.abs(), dd.abs()),
                    // prefixes that do not match, a denominator prefix without a numerator prefix: refused
                    7 if form == 1 => (format!("{:#x}/{:#b}", n.abs(), dd.abs().max(1)), 0, 0),
                    8 if form == 1 => (format!("{}/{:#x}", n, dd.abs().max(1)), 0, 0),
                    _ => (format!("{}/+{}", n, dd.abs()), n, dd.abs()),
                };
                Op::new("r.parse").dst(d).form(form).n(en).m(em).lit(text.into_bytes())
            }
            _ => Op::new("r.intoparts").a(a).dst(d),
        };
        ops.push(op);
    }
    Case { property: "C04".into(), seed, run: index, cfg, fill2: cfg.fill, shadow: false, enumerate: false, garbage_seed: rng.next() | 1, ops }
}

#[derive(Default)]
pub struct C04Counters {
    pub lockstep_steps: u64,
    pub expected_div0_panics: u64,
    pub integer_valued_results: u64,
    pub zero_results: u64,
    pub shared_factor_inputs: u64,
    pub relaxed_reduced_by_two_only: u64,
}

fn q_of(n: &dashu_int::IBig, d: &dashu_int::UBig) -> Option<BigRational> {
    let (n, d) = (ibig_to_bigint(n), ubig_to_bigint(d));
    if d.is_zero() {
        None
    } else {
        Some(BigRational::new(n, d))
    }
}

/// documented convention of `%`: r = a - b * round_half_away(a / b)
fn ref_rem(a: &BigRational, b: &BigRational) -> BigRational {
    let q = a / b;
    let two = BigInt::from(2);
    // round half away from zero
    let (n, d) = (q.numer().clone(), q.denom().clone());
    let r = (&n.abs() * &two + &d).div_floor(&(&d * &two));
    let r = if n.is_negative() { -r } else { r };
    a - b * BigRational::from_integer(r)
}

enum RefOut {
    Value(BigRational),
    /// integer result in I[dst] (both types must produce it), optionally a rational part stored in the given slot
    Int(BigInt, Option<(BigRational, usize)>),
    Panic,
    /// operation the reference does not model (harmless producers): re-synchronise from read-back
    Resync,
}

fn ref_exec(q: &[BigRational], op: &Op, w: &World) -> (RefOut, usize) {
    let (a, b, dst) = (ix(op.a), ix(op.b), ix(op.dst));
    let name = op.name.as_str();
    let rest = &name[2..];
    let form = op.form & 255;
    let inplace = |f: u16, n: u16| f % n >= 6;
    let yi = || BigRational::from_integer(ibig_to_bigint(&w.i[b]));
    let yu = || BigRational::from_integer(ubig_to_bigint(&w.u[b]));
    let bin = |f: &dyn Fn(&BigRational, &BigRational) -> Option<BigRational>| -> (RefOut, usize) {
        let target = if inplace(form, 8) { a } else { dst };
        match f(&q[a], &q[b]) {
            Some(v) => (RefOut::Value(v), target),
            None => (RefOut::Panic, target),
        }
    };
    let mixed = |y: BigRational, opr: u8| -> (RefOut, usize) {
        let x = &q[a];
        let left_int = form % 10 >= 5;
        let (l, r) = if left_int { (&y, x) } else { (x, &y) };
        let v = match opr {
            0 => Some(l + r),
            1 => Some(l - r),
            2 => Some(l * r),
            _ => {
                if r.is_zero() {
                    None
                } else {
                    Some(l / r)
                }
            }
        };
        match v {
            Some(v) => (RefOut::Value(v), dst),
            None => (RefOut::Panic, dst),
        }
    };
    if op.form & 256 != 0 && a == b && matches!(rest, "add" | "sub" | "mul" | "div" | "rem") {
        // moving the first operand out of the slot changes the second one: not the operation modelled here
        return (RefOut::Resync, if inplace(form, 8) { a } else { dst });
    }
    match rest {
        "add" => bin(&|x, y| Some(x + y)),
        "sub" => bin(&|x, y| Some(x - y)),
        "mul" => bin(&|x, y| Some(x * y)),
        "div" => bin(&|x, y| if y.is_zero() { None } else { Some(x / y) }),
        "rem" => bin(&|x, y| if y.is_zero() { None } else { Some(ref_rem(x, y)) }),
        "addi" => mixed(yi(), 0),
        "subi" => mixed(yi(), 1),
        "muli" => mixed(yi(), 2),
        "divi" => mixed(yi(), 3),
        "addu" => mixed(yu(), 0),
        "subu" => mixed(yu(), 1),
        "mulu" => mixed(yu(), 2),
        "divu" => mixed(yu(), 3),
        "pow" => {
            let n = op.n.unsigned_abs() as usize % 9;
            (RefOut::Value(num_traits::pow::pow(q[a].clone(), n)), dst)
        }
        "sqr" => (RefOut::Value(&q[a] * &q[a]), dst),
        "cubic" => (RefOut::Value(&q[a] * &q[a] * &q[a]), dst),
        "inv" => {
            if q[a].is_zero() {
                (RefOut::Panic, dst)
            } else {
                (RefOut::Value(q[a].recip()), dst)
            }
        }
        "neg" => (RefOut::Value(-&q[a]), dst),
        "abs" => (RefOut::Value(q[a].abs()), dst),
        "signum" => (RefOut::Value(q[a].signum()), dst),
        "mulsign" => (RefOut::Value(if op.n & 1 == 1 { -&q[a] } else { q[a].clone() }), dst),
        "fromint" => (
            RefOut::Value(BigRational::from_integer(if form % 2 == 0 { ibig_to_bigint(&w.i[a]) } else { ubig_to_bigint(&w.u[a]) })),
            dst,
        ),
        "fromparts" => {
            let n = ibig_to_bigint(&w.i[a]);
            let d = if form % 2 == 0 { ubig_to_bigint(&w.u[b]) } else { ibig_to_bigint(&w.i[b]) };
            if d.is_zero() {
                (RefOut::Panic, dst)
            } else {
                (RefOut::Value(BigRational::new(n, d)), dst)
            }
        }
        "parse" => {
            // refused input leaves the slot as it is
            if op.m == 0 {
                (RefOut::Value(q[dst].clone()), dst)
            } else {
                (RefOut::Value(BigRational::new(BigInt::from(op.n), BigInt::from(op.m))), dst)
            }
        }
        "round" => {
            let x = &q[a];
            match form % 5 {
                0 => (RefOut::Int(x.trunc().to_integer(), None), dst),
                1 => (RefOut::Int(x.floor().to_integer(), None), dst),
                2 => (RefOut::Int(x.ceil().to_integer(), None), dst),
                // ties away from zero (documented), which is what BigRational::round does
                3 => (RefOut::Int(x.round().to_integer(), None), dst),
                _ => (RefOut::Int(x.trunc().to_integer(), Some((x.fract(), dst))), dst),
            }
        }
        "fract" => (RefOut::Value(q[a].fract()), dst),
        "zeroize" => (RefOut::Value(BigRational::zero()), a),
        "split" => (RefOut::Int(q[a].trunc().to_integer(), Some((q[a].fract(), (dst + 1) % NP))), dst),
        "toint" => (RefOut::Int(q[a].trunc().to_integer(), None), dst),
        "diveuclid" => {
            let (x, y) = (&q[a], &q[b]);
            if y.is_zero() {
                (RefOut::Panic, dst)
            } else {
                // 0 <= r < |y|
                let t = x / y;
                let qe = if y.is_positive() { t.floor() } else { t.ceil() };
                let r = x - y * &qe;
                (RefOut::Int(qe.to_integer(), Some((r, dst))), dst)
            }
        }
        "clone" | "clonefrom" | "rt" => (RefOut::Value(q[a].clone()), dst),
        "intoparts" => (RefOut::Value(q[a].clone()), dst),
        _ => (RefOut::Resync, dst),
    }
}

fn viol(class: &str, step: usize, detail: String) -> Violation {
    Violation { class: class.to_string(), step, detail }
}

pub fn run_case(case: &Case, stats: &mut Stats, cnt: &mut C04Counters) -> CaseResult {
    simalloc::begin_run(case.cfg, case.garbage_seed);
    let mut res = CaseResult { violation: None, harness_error: None, chain: 0xC04, executions: 1, fault_points: 0, failing: None, soft: None };
    simalloc::track(true);
    let mut w = World::new();
    simalloc::track(false);
    let mut q: Vec<BigRational> = (0..NP).map(|k| q_of(w.r[k].numerator(), w.r[k].denominator()).unwrap()).collect();
    let mut env = Env::new(false);
    env.ratio_oracle = true;

    'steps: for (k, op) in case.ops.iter().enumerate() {
        CUR_STEP.store(k as u64, std::sync::atomic::Ordering::Relaxed);
        let is_r = op.name.starts_with("r.");
        // integer producers (operands of the mixed forms) just run
        if !is_r {
            env.reset();
            simalloc::track(true);
            let r = catch_unwind(AssertUnwindSafe(|| exec(&mut w, op, &mut env)));
            simalloc::track(false);
            if r.is_err() {
                let p = take_panic();
                if op.name.starts_with("rbig.") {
                    // reducing a fraction with a non-zero denominator is a defined operation
                    if let Some(p) = p {
                        if p.origin() == "dashu" || p.origin() == "rust" {
                            res.violation = Some(viol("ratio.unexpected_panic", k, format!("{}: defined operation panicked: {} @{}:{}", op.name, p.msg(), p.file(), p.line)));
                            break 'steps;
                        }
                    }
                }
            }
            stats.steps += 1;
            if let Some((class, detail)) = untracked(|| env.violation.take()) {
                if class.starts_with("ratio.") {
                    res.violation = Some(viol(&class, k, format!("{}: {}", op.name, detail)));
                    break 'steps;
                }
            }
            if op.name.starts_with("med.") {
                // a decoder may have written R[dst]: it must be canonical; the reference and the Relaxed world follow it
                let d = ix(op.dst);
                let (n, dn) = (ibig_to_bigint(w.r[d].numerator()), ubig_to_bigint(w.r[d].denominator()));
                if dn.is_zero() {
                    res.violation = Some(viol("ratio.zero_denominator", k, format!("{}: R[{}] = {}", op.name, d, text_rbig(&w.r[d]))));
                    break 'steps;
                }
                if !n.gcd(&dn).is_one() || (n.is_zero() && !dn.is_one()) {
                    res.violation = Some(viol("ratio.not_lowest_terms", k, format!("{}: R[{}] = {}", op.name, d, text_rbig(&w.r[d]))));
                    break 'steps;
                }
                q[d] = BigRational::new(n, dn);
                simalloc::track(true);
                w.x[d] = w.r[d].clone().relax();
                simalloc::track(false);
            }
            continue;
        }
        // reference first (pure), from the state before the step
        let (rout, target) = ref_exec(&q, op, &w);
        {
            let (a, b) = (ix(op.a), ix(op.b));
            if matches!(op.name.as_str(), "r.add" | "r.sub" | "r.mul" | "r.div") && !q[a].denom().gcd(q[b].denom()).is_one() {
                cnt.shared_factor_inputs += 1;
            }
        }
        // Relaxed world first (its components are the larger ones: if a size guard skips it, skip the step)
        let mut xop = op.clone();
        xop.name = format!("x.{}", &op.name[2..]);
        if matches!(&op.name[2..], "nearest" | "simplest" | "static") {
            // operations that exist for RBig only: the Relaxed slot mirrors the result afterwards
            xop = Op::new("nop");
        }
        env.reset();
        simalloc::track(true);
        let rx = catch_unwind(AssertUnwindSafe(|| exec(&mut w, &xop, &mut env)));
        simalloc::track(false);
        let x_panicked = rx.is_err();
        drop(rx);
        let xp = if x_panicked { take_panic() } else { None };
        if env.skipped {
            stats.skipped += 1;
            continue;
        }
        let x_int = untracked(|| ibig_to_bigint(&w.i[ix(op.dst)]));
        env.reset();
        let (la, lb) = operand_layouts(&w, op);
        simalloc::track(true);
        let rr = catch_unwind(AssertUnwindSafe(|| exec(&mut w, op, &mut env)));
        simalloc::track(false);
        let r_panicked = rr.is_err();
        drop(rr);
        let rp = if r_panicked { take_panic() } else { None };
        if xop.name == "nop" && !r_panicked {
            // RBig-only operation: mirror its result into the Relaxed world (harness-side, through the public conversion)
            let d = ix(op.dst);
            simalloc::track(true);
            w.x[d] = w.r[d].clone().relax();
            simalloc::track(false);
        }
        for p in [&xp, &rp].into_iter().flatten() {
            if p.origin() == "harness" {
                res.harness_error = Some(format!("harness panic at {}:{}: {}", p.file(), p.line, p.msg()));
                break 'steps;
            }
            Stats::bump(&mut stats.panics, p.class());
        }
        stats.steps += 1;
        cnt.lockstep_steps += 1;
        record_sig(stats, &w, op, &env, rp.as_ref().map(|p| p.class()).unwrap_or(""), la, lb);
        if env.skipped {
            // RBig skipped but Relaxed did not (cannot happen for canonical values): resynchronise below
            stats.skipped += 1;
        }
        let rout_is_resync = matches!(rout, RefOut::Resync);
        let describe = |w: &World, k: usize| format!("R={} X={}", text_rbig(&w.r[k]), text_relaxed(&w.x[k]));

        match rout {
            RefOut::Panic => {
                cnt.expected_div0_panics += 1;
                if !r_panicked || !x_panicked {
                    res.violation = Some(viol(
                        "ratio.missing_panic",
                        k,
                        format!(
                            "{}: the mathematical operation divides by zero (or has a zero denominator) but RBig panicked={} Relaxed panicked={}; {}",
                            op.name, r_panicked, x_panicked, describe(&w, target)
                        ),
                    ));
                    break;
                }
            }
            RefOut::Value(v) => {
                if r_panicked || x_panicked {
                    let p = rp.as_ref().or(xp.as_ref());
                    res.violation = Some(viol(
                        "ratio.unexpected_panic",
                        k,
                        format!(
                            "{}: defined operation panicked (RBig {}, Relaxed {}): {}",
                            op.name,
                            r_panicked,
                            x_panicked,
                            p.map(|p| format!("{} @{}:{}", p.msg(), p.file(), p.line)).unwrap_or_default()
                        ),
                    ));
                    break;
                }
                if !env.skipped {
                    q[target] = v;
                }
            }
            RefOut::Int(int, frac) => {
                if r_panicked || x_panicked {
                    let p = rp.as_ref().or(xp.as_ref());
                    res.violation = Some(viol(
                        "ratio.unexpected_panic",
                        k,
                        format!("{}: defined operation panicked (RBig {}, Relaxed {}): {}", op.name, r_panicked, x_panicked, p.map(|p| format!("{} @{}:{}", p.msg(), p.file(), p.line)).unwrap_or_default()),
                    ));
                    break;
                }
                if !env.skipped {
                    let r_int = untracked(|| ibig_to_bigint(&w.i[ix(op.dst)]));
                    if r_int != int || x_int != int {
                        res.violation = Some(viol(
                            "ratio.int_result",
                            k,
                            format!("{} form {} of {}: RBig gives {}, Relaxed gives {}, the exact integer result is {}", op.name, op.form, describe(&w, ix(op.a)), hex_big(&r_int), hex_big(&x_int), hex_big(&int)),
                        ));
                        break;
                    }
                    if let Some((v, slot)) = frac {
                        q[slot] = v;
                    }
                }
            }
            RefOut::Resync => {}
        }

        // moved-out operands (take forms / r.take) and panics: bring the reference in line with what RBig holds
        // for every slot the step was allowed to touch; the untouched slots must still match exactly
        let full = r_panicked || x_panicked || matches!(rout_kind(&op.name), Kind::Unmodelled) || env.skipped || rout_is_resync;
        let take = op.form & 256 != 0;
        let (sa, sb, sd) = (ix(op.a), ix(op.b), ix(op.dst));
        for s in 0..NP {
            let rq = q_of(w.r[s].numerator(), w.r[s].denominator());
            let xq = q_of(w.x[s].numerator(), w.x[s].denominator());
            let may_resync = if full {
                s == sa || s == sb || s == sd || s == (sd + 1) % NP
            } else if take {
                (s == sa || s == sb) && s != target
            } else {
                false
            };
            // ---- canonical form of RBig
            let (n, d) = (ibig_to_bigint(w.r[s].numerator()), ubig_to_bigint(w.r[s].denominator()));
            if d.is_zero() {
                res.violation = Some(viol("ratio.zero_denominator", k, format!("{}: R[{}] = {}", op.name, s, text_rbig(&w.r[s]))));
                break 'steps;
            }
            if !n.gcd(&d).is_one() || (n.is_zero() && !d.is_one()) {
                res.violation = Some(viol("ratio.not_lowest_terms", k, format!("{}: R[{}] = {}", op.name, s, text_rbig(&w.r[s]))));
                break 'steps;
            }
            let xd = ubig_to_bigint(w.x[s].denominator());
            if xd.is_zero() {
                res.violation = Some(viol("ratio.zero_denominator", k, format!("{}: X[{}] = {}", op.name, s, text_relaxed(&w.x[s]))));
                break 'steps;
            }
            let (rq, xq) = (rq.unwrap(), xq.unwrap());
            if may_resync {
                if rq != xq {
                    res.violation = Some(viol("ratio.relaxed_differs", k, format!("{}: slot {} {}", op.name, s, describe(&w, s))));
                    break 'steps;
                }
                q[s] = rq;
                continue;
            }
            if rq != q[s] {
                res.violation = Some(viol(
                    "ratio.rbig_value",
                    k,
                    format!("{}: R[{}] = {} but the exact result is {}/{}", op.name, s, text_rbig(&w.r[s]), hex_big(q[s].numer()), hex_big(q[s].denom())),
                ));
                break 'steps;
            }
            if xq != q[s] {
                res.violation = Some(viol(
                    "ratio.relaxed_value",
                    k,
                    format!("{}: X[{}] = {} but the exact result is {}/{}", op.name, s, text_relaxed(&w.x[s]), hex_big(q[s].numer()), hex_big(q[s].denom())),
                ));
                break 'steps;
            }
        }
        // statistics on the result
        if !r_panicked {
            let t = &q[target];
            if t.is_integer() {
                cnt.integer_valued_results += 1;
            }
            if t.is_zero() {
                cnt.zero_results += 1;
            }
            let xn = ibig_to_bigint(w.x[target].numerator());
            let xdn = ubig_to_bigint(w.x[target].denominator());
            if !(xn.is_even() && xdn.is_even()) {
                cnt.relaxed_reduced_by_two_only += 1;
            }
        }
        // conversions between the two types on the live values
        if k % 3 == 0 {
            let s = target;
            simalloc::track(true);
            let conv = catch_unwind(AssertUnwindSafe(|| {
                let c = w.x[s].clone().canonicalize();
                let same = c.numerator() == w.r[s].numerator() && c.denominator() == w.r[s].denominator();
                let rel = w.r[s].clone().relax();
                let same2 = rel == w.x[s];
                drop(c);
                drop(rel);
                (same, same2)
            }));
            simalloc::track(false);
            match conv {
                Ok((true, true)) => {}
                Ok((s1, s2)) => {
                    res.violation = Some(viol(
                        "ratio.conversion",
                        k,
                        format!("{}: canonicalize(X)==R is {}, relax(R)==X is {}; {}", op.name, s1, s2, describe(&w, s)),
                    ));
                    break;
                }
                Err(_) => {
                    let _ = take_panic();
                }
            }
        }
        // history bound: replace oversized triples together
        for s in 0..NP {
            let big = |v: u64| v > MAXB;
            if big(q[s].numer().bits()) || big(q[s].denom().bits()) || big(ubig_to_bigint(w.x[s].denominator()).bits()) || big(ibig_to_bigint(w.x[s].numerator()).bits()) {
                simalloc::track(true);
                w.r[s] = dashu_ratio::RBig::from_parts(dashu_int::IBig::from(-3), dashu_int::UBig::from(7u8));
                w.x[s] = dashu_ratio::Relaxed::from_parts(dashu_int::IBig::from(-3), dashu_int::UBig::from(7u8));
                simalloc::track(false);
                q[s] = BigRational::new(BigInt::from(-3), BigInt::from(7));
            }
        }
        let mut d = Dig(res.chain);
        for s in 0..NP {
            dig_rbig(&mut d, &w.r[s]);
            dig_relaxed(&mut d, &w.x[s]);
        }
        res.chain = d.0;
    }
    if res.violation.is_some() || res.harness_error.is_some() {
        std::mem::forget(w);
    } else {
        simalloc::track(true);
        let _ = catch_unwind(AssertUnwindSafe(|| drop(w)));
        simalloc::track(false);
        let _ = take_panic();
    }
    simalloc::end_run();
    let _ = simalloc::take_violation();
    stats.runs += 1;
    res
}

enum Kind {
    Modelled,
    Unmodelled,
}
fn rout_kind(name: &str) -> Kind {
    match &name[2..] {
        "take" | "swap" | "drop" => Kind::Unmodelled,
        _ => Kind::Modelled,
    }
}

fn hex_big(v: &BigInt) -> String {
    format!("{}{:x}", if v.is_negative() { "-" } else { "" }, v.magnitude())
}
