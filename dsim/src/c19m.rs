//! C19 (b): runs of the serialization-medium simulator (see exec_medium.rs).

use crate::case::Case;
use crate::gen;
use crate::ops::Op;
use crate::prng::{run_seed, Rng};
use crate::run::*;
use crate::world::*;

fn slot(rng: &mut Rng) -> u64 {
    rng.below(NP as u64)
}

pub fn gen_medium_op(rng: &mut Rng) -> Op {
    let pool = rng.below(6);
    let fault = match rng.below(100) {
        0..=24 => 0,
        25..=84 => 1 + rng.below(7) as i64,
        _ => 8,
    };
    let mut lit = (rng.below(1 << 16) as u32).to_le_bytes().to_vec();
    lit.push(rng.next() as u8);
    match rng.below(10) {
        0..=4 => Op::new("med.serde").a(slot(rng)).dst(slot(rng)).c(if rng.chance(1, 5) { 6 + rng.below(2) } else { pool }).form(rng.below(3)).m(fault).lit(lit),
        5 | 6 => Op::new("med.twin").a(slot(rng)).b(slot(rng)).dst(slot(rng)).c(2 + rng.below(4)).form(rng.below(3)).n(rng.below(9) as i64).m(rng.below(60) as i64),
        7 if rng.chance(1, 2) => {
            let exp = match rng.below(6) {
                0 => (1i64 << 31) + rng.below(5) as i64 - 2,
                1 => -(1i64 << 31) - rng.below(5) as i64 + 2,
                2 => (1i64 << 40) + rng.below(9) as i64,
                3 => -(1i64 << 45) - rng.below(9) as i64,
                4 => rng.range(-70000, 70000),
                _ => (rng.next() >> 3) as i64 - (1i64 << 59),
            };
            let prec = match rng.below(4) {
                0 => 1i64 << 32,
                1 => (1i64 << 32) + 7,
                2 => rng.below(200) as i64,
                _ => 0,
            };
            Op::new("med.bigexp").a(rng.below(100)).b(rng.below(2)).c(2 + rng.below(2)).form(rng.below(2)).n(exp).m(prec)
        }
        8 if rng.chance(1, 3) => Op::new("med.jtext").a(slot(rng)).dst(slot(rng)).c(rng.pick(&[0u64, 1, 4, 5])).n(rng.below(9) as i64),
        8 => Op::new("med.tokens").a(slot(rng)).b(slot(rng)).dst(slot(rng)).c(pool).n(rng.next() as i64).m(rng.below(1 << 30) as i64),
        7 => Op::new("med.bytes").a(slot(rng)).dst(slot(rng)).c(rng.below(2)).form(rng.below(2)).m(fault.min(7)).lit(lit),
        _ => Op::new("med.text").a(slot(rng)).dst(slot(rng)).c(pool).m(fault.min(7)).lit(lit),
    }
}

pub fn gen_case(seed: u64, index: u64) -> Case {
    let rs = run_seed(seed, "C19M", index);
    let mut rng = Rng::new(rs);
    let mut sw = gen::Swarm::draw(&mut rng);
    sw.w_ctor = sw.w_ctor.max(20);
    sw.w_panic = 0;
    sw.w_query = 0;
    sw.w_mod = 0;
    sw.w_float = sw.w_float.max(12);
    sw.w_ratio = sw.w_ratio.max(12);
    let cfg = gen::gen_runcfg(&mut rng);
    let len = 6 + rng.below(24) as usize;
    let mut ops = Vec::with_capacity(len);
    while ops.len() < len {
        if ops.len() >= 3 && rng.chance(1, 2) {
            ops.push(gen_medium_op(&mut rng));
        } else {
            ops.push(gen::gen_op(&mut rng, &sw, false));
        }
    }
    Case { property: "C19M".into(), seed, run: index, cfg, fill2: cfg.fill, shadow: false, enumerate: false, garbage_seed: rng.next() | 1, ops }
}

#[derive(Default)]
pub struct MediumHook {
    pub medium_steps: u64,
    pub decoded_ok: u64,
    pub thirdparty_panics: u64,
    pub pending_soft: Option<Violation>,
    /// medium steps by (operation, fault kind)
    pub by_fault: std::collections::BTreeMap<String, u64>,
}

impl StepHook for MediumHook {
    fn after_step(&mut self, _w: &mut World, op: &Op, env: &Env, p: Option<&PanicRec>, step: usize) -> Option<Violation> {
        if !op.name.starts_with("med.") {
            return None;
        }
        self.medium_steps += 1;
        {
            const KINDS: [&str; 10] = ["none", "truncate", "bit_flip", "drop_byte", "dup_byte", "insert_byte", "replace_byte", "rotate", "short_interrupted_reads", "none"];
            let key = match op.name.as_str() {
                "med.twin" => format!("twin.{}", op.n.rem_euclid(9)),
                "med.tokens" => "tokens".to_string(),
                "med.bigexp" => "bigexp".to_string(),
                n => format!("{}.{}", &n[4..], KINDS[op.m.rem_euclid(10) as usize]),
            };
            *self.by_fault.entry(key).or_insert(0) += 1;
        }
        if env.nres > 0 {
            self.decoded_ok += 1;
        }
        if let Some(p) = p {
            match p.origin() {
                "dashu" => {
                    return Some(Violation {
                        class: "medium.dashu_panic".into(),
                        step,
                        detail: format!("{}: dashu panicked while encoding/decoding: {} @{}:{}", op.name, p.msg(), p.file(), p.line),
                    })
                }
                _ => self.thirdparty_panics += 1,
            }
        }
        None
    }
    fn take_soft(&mut self) -> Option<Violation> {
        self.pending_soft.take()
    }
}

impl MediumHook {
    fn _unused(&self) {}
}

pub fn run_case(case: &Case, stats: &mut Stats, hook: &mut MediumHook) -> Outcome {
    let opts = RunOpts { cfg: case.cfg, garbage_seed: case.garbage_seed, shadow: false, oracles: OracleSet::C17, want_text: false, cmp_oracle: false };
    run_ops(&case.ops, &opts, stats, hook)
}
