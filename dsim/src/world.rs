//! The simulated world: typed pools of live dashu values, and the executor that applies one
//! operation of an operation list to it. The executor is a pure function of (world, op, form).
//!
//! Everything dashu-side runs with allocator tracking ON (the caller brackets `exec`); harness-side
//! bookkeeping that allocates is wrapped in `untracked`.

use crate::ops::{FaultKind, Op};
use crate::simalloc;
use crate::view::*;
use dashu_base::{
    Abs, BitTest, DivEuclid, DivRem, DivRemAssign, DivRemEuclid, ExtendedGcd, Gcd, PowerOfTwo, RemEuclid, Sign,
    Signed, SquareRoot, SquareRootRem, UnsignedAbs,
};
use dashu_float::{round::mode, FBig};
use dashu_int::{IBig, UBig, Word};
use dashu_ratio::{RBig, Relaxed};
use std::fmt::Write as _;
use std::hash::{Hash, Hasher};

pub type FBin = FBig<mode::Zero, 2>;
pub type FDec = FBig<mode::HalfAway, 10>;

pub const NP: usize = 4;
/// pool values larger than this many bits are replaced after the step (keeps histories bounded)
pub const CAP_BITS: usize = if cfg!(miri) { 512 } else { 4096 };
/// hard guard for intermediate results requested by an op (so that any op list is safe to run)
pub const GUARD_BITS: usize = if cfg!(miri) { 1024 } else { 1 << 15 };

#[derive(Clone, Copy, Debug, PartialEq, Eq, Hash, PartialOrd, Ord)]
pub enum Pool {
    U,
    I,
    F,
    D,
    R,
    X,
}

pub struct World {
    pub u: Vec<UBig>,
    pub i: Vec<IBig>,
    pub f: Vec<FBin>,
    pub d: Vec<FDec>,
    pub r: Vec<RBig>,
    pub x: Vec<Relaxed>,
}

pub fn untracked<T>(f: impl FnOnce() -> T) -> T {
    let old = simalloc::track(false);
    let r = f();
    simalloc::track(old);
    r
}

impl World {
    pub fn any_overlong_float(&self) -> bool {
        (0..NP).any(|k| self.overlong_slot(Pool::F, k) || self.overlong_slot(Pool::D, k))
    }
    pub fn overlong_slot(&self, p: Pool, k: usize) -> bool {
        fn ol<R: dashu_float::round::Round, const B: Word>(v: &FBig<R, B>) -> bool {
            v.precision() != 0 && v.repr().is_finite() && v.repr().digits() > v.precision()
        }
        match p {
            Pool::F => ol(&self.f[k]),
            Pool::D => ol(&self.d[k]),
            _ => false,
        }
    }

    /// Must be called with tracking ON (the values are dashu allocations; all inline initially).
    pub fn new() -> World {
        let (mut u, mut i, mut f, mut d, mut r, mut x) = untracked(|| {
            (
                Vec::with_capacity(NP),
                Vec::with_capacity(NP),
                Vec::with_capacity(NP),
                Vec::with_capacity(NP),
                Vec::with_capacity(NP),
                Vec::with_capacity(NP),
            )
        });
        for k in 0..NP {
            u.push(UBig::from(k as u32));
            i.push(IBig::from(k as i32 - 1));
            f.push(FBin::from_parts(IBig::from(k as i32 + 1), k as isize - 1).with_precision(24 + 20 * k).value());
            d.push(FDec::from_parts(IBig::from(k as i32 + 1), k as isize - 1).with_precision(6 + 5 * k).value());
            r.push(RBig::from_parts(IBig::from(k as i32), UBig::from(k as u32 + 1)));
            x.push(Relaxed::from_parts(IBig::from(k as i32), UBig::from(k as u32 + 1)));
        }
        World { u, i, f, d, r, x }
    }

    pub fn digest(&self) -> u64 {
        let mut d = Dig::new();
        for v in &self.u {
            dig_ubig(&mut d, v);
        }
        for v in &self.i {
            dig_ibig(&mut d, v);
        }
        for v in &self.f {
            dig_fbig(&mut d, v);
        }
        for v in &self.d {
            dig_fbig(&mut d, v);
        }
        for v in &self.r {
            dig_rbig(&mut d, v);
        }
        for v in &self.x {
            dig_relaxed(&mut d, v);
        }
        d.finish()
    }

    pub fn dig_slot(&self, d: &mut Dig, p: Pool, k: usize) {
        match p {
            Pool::U => dig_ubig(d, &self.u[k]),
            Pool::I => dig_ibig(d, &self.i[k]),
            Pool::F => dig_fbig(d, &self.f[k]),
            Pool::D => dig_fbig(d, &self.d[k]),
            Pool::R => dig_rbig(d, &self.r[k]),
            Pool::X => dig_relaxed(d, &self.x[k]),
        }
    }

    pub fn text_slot(&self, p: Pool, k: usize) -> String {
        match p {
            Pool::U => hex_ubig(&self.u[k]),
            Pool::I => hex_ibig(&self.i[k]),
            Pool::F => text_fbig(&self.f[k]),
            Pool::D => text_fbig(&self.d[k]),
            Pool::R => text_rbig(&self.r[k]),
            Pool::X => text_relaxed(&self.x[k]),
        }
    }

    /// Visit every integer component of every pool value.
    pub fn for_each_int(&self, mut f: impl FnMut(Pool, usize, u8, &IBig)) {
        for (k, v) in self.u.iter().enumerate() {
            f(Pool::U, k, 0, v.as_ibig());
        }
        for (k, v) in self.i.iter().enumerate() {
            f(Pool::I, k, 0, v);
        }
        for (k, v) in self.f.iter().enumerate() {
            f(Pool::F, k, 0, v.repr().significand());
        }
        for (k, v) in self.d.iter().enumerate() {
            f(Pool::D, k, 0, v.repr().significand());
        }
        for (k, v) in self.r.iter().enumerate() {
            f(Pool::R, k, 0, v.numerator());
            f(Pool::R, k, 1, v.denominator().as_ibig());
        }
        for (k, v) in self.x.iter().enumerate() {
            f(Pool::X, k, 0, v.numerator());
            f(Pool::X, k, 1, v.denominator().as_ibig());
        }
    }

    /// Replace oversized values (history bound). Runs tracked: dropping is a dashu operation.
    pub fn cap(&mut self) {
        for v in self.u.iter_mut() {
            if v.bit_len() > CAP_BITS {
                *v = UBig::from(7u8);
            }
        }
        for v in self.i.iter_mut() {
            if v.bit_len() > CAP_BITS {
                *v = IBig::from(-7i8);
            }
        }
        for v in self.f.iter_mut() {
            let e = v.repr().exponent();
            if v.repr().significand().bit_len() > CAP_BITS || v.precision() > CAP_BITS || e.unsigned_abs() > 100_000 {
                *v = FBin::from_parts(IBig::from(5), -1).with_precision(40).value();
            }
        }
        for v in self.d.iter_mut() {
            let e = v.repr().exponent();
            if v.repr().significand().bit_len() > CAP_BITS || v.precision() > CAP_BITS / 3 || e.unsigned_abs() > 30_000 {
                *v = FDec::from_parts(IBig::from(5), -1).with_precision(12).value();
            }
        }
        for v in self.r.iter_mut() {
            if v.numerator().bit_len() > CAP_BITS || v.denominator().bit_len() > CAP_BITS {
                *v = RBig::from_parts(IBig::from(-3), UBig::from(7u8));
            }
        }
        for v in self.x.iter_mut() {
            if v.numerator().bit_len() > CAP_BITS || v.denominator().bit_len() > CAP_BITS {
                *v = Relaxed::from_parts(IBig::from(-3), UBig::from(7u8));
            }
        }
    }

    /// A fresh world holding the same values, rebuilt through public constructors from read-back
    /// (no hidden state survives: capacities, slack words, placement are all new).
    pub fn rebuild(&self) -> World {
        let mut w = World::new();
        for k in 0..NP {
            w.u[k] = fresh_ubig(&self.u[k]);
            w.i[k] = fresh_ibig(&self.i[k]);
            w.f[k] = fresh_fbig(&self.f[k]);
            w.d[k] = fresh_fbig(&self.d[k]);
            w.r[k] = fresh_rbig(&self.r[k]);
            w.x[k] = fresh_relaxed(&self.x[k]);
        }
        w
    }
}

pub fn fresh_ubig(v: &UBig) -> UBig {
    // from_le_bytes route: independent of the source's buffer
    let bytes = untracked(|| le_bytes_of_words(v.as_words()));
    let r = UBig::from_le_bytes(&bytes);
    untracked(|| drop(bytes));
    r
}
pub fn fresh_ibig(v: &IBig) -> IBig {
    let (s, w) = v.as_sign_words();
    let bytes = untracked(|| le_bytes_of_words(w));
    let r = IBig::from_parts(s, UBig::from_le_bytes(&bytes));
    untracked(|| drop(bytes));
    r
}
pub fn fresh_fbig<R: dashu_float::round::Round, const B: Word>(v: &FBig<R, B>) -> FBig<R, B> {
    let prec = v.precision();
    let ctx = dashu_float::Context::<R>::new(prec);
    if v.repr().is_infinite() {
        let r = if v.repr().exponent() > 0 { dashu_float::Repr::infinity() } else { dashu_float::Repr::neg_infinity() };
        return FBig::from_repr(r, ctx);
    }
    if prec != 0 && v.repr().digits() > prec {
        // over-long significand (can only come out of dashu's own producers; from_repr would refuse it):
        // keep the value as it is rather than invent a different one
        return v.clone();
    }
    let sig = fresh_ibig(v.repr().significand());
    FBig::from_repr(dashu_float::Repr::new(sig, v.repr().exponent()), ctx)
}
pub fn fresh_rbig(v: &RBig) -> RBig {
    let r = RBig::from_parts(fresh_ibig(v.numerator()), fresh_ubig(v.denominator()));
    if r.numerator() != v.numerator() || r.denominator() != v.denominator() {
        // not in canonical form (a torn composite left behind by a failed operation): the public
        // constructors cannot reproduce it, keep it as it is rather than invent a different value
        return v.clone();
    }
    r
}
pub fn fresh_relaxed(v: &Relaxed) -> Relaxed {
    let r = Relaxed::from_parts(fresh_ibig(v.numerator()), fresh_ubig(v.denominator()));
    if r.numerator() != v.numerator() || r.denominator() != v.denominator() {
        return v.clone();
    }
    r
}

// ------------------------------------------------------------------------------------------
/// Per-step environment: digest/text of scalar outputs, result slots, callback fault plan.
pub struct Env {
    pub dig: Dig,
    pub text: Option<String>,
    pub results: [(Pool, u8); 4],
    pub nres: usize,
    /// form not applicable for these operands (C15 enumeration skips it)
    pub skipped: bool,
    pub cb_fault: Option<(FaultKind, u32)>,
    pub cb_calls: u32,
    pub cb_fired: bool,
    /// verdict of an oracle embedded in the step itself (medium round trips): (class, detail)
    pub violation: Option<(String, String)>,
    /// like `violation`, for classes that do not invalidate the rest of the run
    pub soft: Option<(String, String)>,
    /// the run judges call-form agreement (C15): steps that embed a one-directional form rule report through `violation`
    pub forms_oracle: bool,
    /// the run judges ==/cmp against exact values (C05)
    pub cmp_oracle: bool,
    /// the run judges rational values and canonical form (C04)
    pub ratio_oracle: bool,
}

impl Env {
    pub fn new(want_text: bool) -> Env {
        Env {
            dig: Dig::new(),
            text: if want_text { Some(String::new()) } else { None },
            results: [(Pool::U, 0); 4],
            nres: 0,
            skipped: false,
            cb_fault: None,
            cb_calls: 0,
            cb_fired: false,
            violation: None,
            soft: None,
            forms_oracle: false,
            cmp_oracle: false,
            ratio_oracle: false,
        }
    }
    pub fn reset(&mut self) {
        self.dig = Dig::new();
        if let Some(t) = self.text.as_mut() {
            t.clear();
        }
        self.nres = 0;
        self.skipped = false;
        self.cb_fault = None;
        self.cb_calls = 0;
        self.cb_fired = false;
        self.violation = None;
        self.soft = None;
    }
    pub fn res(&mut self, p: Pool, k: usize) {
        if self.nres < 4 {
            self.results[self.nres] = (p, k as u8);
            self.nres += 1;
        }
    }
    pub fn emit_u64(&mut self, tag: &str, x: u64) {
        self.dig.u64(x);
        if self.text.is_some() {
            untracked(|| {
                let _ = write!(self.text.as_mut().unwrap(), " {}={}", tag, x);
            });
        }
    }
    pub fn emit_i64(&mut self, tag: &str, x: i64) {
        self.dig.i64(x);
        if self.text.is_some() {
            untracked(|| {
                let _ = write!(self.text.as_mut().unwrap(), " {}={}", tag, x);
            });
        }
    }
    pub fn emit_bytes(&mut self, tag: &str, b: &[u8]) {
        self.dig.bytes(b);
        if self.text.is_some() {
            untracked(|| {
                let t = self.text.as_mut().unwrap();
                let _ = write!(t, " {}=", tag);
                for x in b {
                    let _ = write!(t, "{:02x}", x);
                }
            });
        }
    }
    pub fn emit_str(&mut self, tag: &str, s: &str) {
        self.dig.bytes(s.as_bytes());
        if self.text.is_some() {
            untracked(|| {
                let _ = write!(self.text.as_mut().unwrap(), " {}={:?}", tag, s);
            });
        }
    }
    pub fn emit_ord(&mut self, tag: &str, o: core::cmp::Ordering) {
        self.emit_i64(tag, o as i64)
    }
    pub fn emit_opt(&mut self, tag: &str, o: Option<usize>) {
        match o {
            None => self.emit_i64(tag, -1),
            Some(v) => self.emit_u64(tag, v as u64),
        }
    }
    pub fn emit_f64(&mut self, tag: &str, x: f64) {
        self.emit_u64(tag, x.to_bits())
    }
    pub fn emit_f32(&mut self, tag: &str, x: f32) {
        self.emit_u64(tag, x.to_bits() as u64)
    }
    pub fn emit_sign(&mut self, tag: &str, s: Sign) {
        self.emit_u64(tag, (s == Sign::Negative) as u64)
    }
    pub fn emit_ibig(&mut self, tag: &str, v: &IBig) {
        dig_ibig(&mut self.dig, v);
        if self.text.is_some() {
            untracked(|| {
                let s = hex_ibig(v);
                let _ = write!(self.text.as_mut().unwrap(), " {}={}", tag, s);
            });
        }
    }
    pub fn emit_ubig(&mut self, tag: &str, v: &UBig) {
        self.emit_ibig(tag, v.as_ibig())
    }
    pub fn skip(&mut self) {
        self.skipped = true;
    }
    /// a caller-supplied callback is being invoked from inside dashu: decide whether it fails now
    pub fn cb_tick(&mut self) -> Option<FaultKind> {
        self.cb_calls += 1;
        if let Some((kind, k)) = self.cb_fault {
            if self.cb_calls == k && !self.cb_fired {
                self.cb_fired = true;
                return Some(kind);
            }
        }
        None
    }
}

/// fmt sink owned by the simulator: hashes what it receives, fails or panics on request.
pub struct Sink<'a> {
    pub env: &'a mut Env,
    pub bytes: usize,
}
impl<'a> std::fmt::Write for Sink<'a> {
    fn write_str(&mut self, s: &str) -> std::fmt::Result {
        match self.env.cb_tick() {
            Some(FaultKind::CbErr) => return Err(std::fmt::Error),
            Some(FaultKind::CbPanic) => panic!("dsim: sink panic"),
            _ => {}
        }
        self.bytes += s.len();
        self.env.dig.bytes(s.as_bytes());
        if self.env.text.is_some() {
            untracked(|| self.env.text.as_mut().unwrap().push_str(s));
        }
        Ok(())
    }
}

/// Hasher owned by the simulator (fixed function; may panic on request).
pub struct SimHasher {
    pub d: Dig,
}
impl Hasher for SimHasher {
    fn finish(&self) -> u64 {
        self.d.0
    }
    fn write(&mut self, bytes: &[u8]) {
        for b in bytes {
            self.d.byte(*b);
        }
    }
}
pub fn sim_hash<T: Hash>(v: &T) -> u64 {
    let mut h = SimHasher { d: Dig::new() };
    v.hash(&mut h);
    h.finish()
}

#[inline]
pub fn ix(v: u8) -> usize {
    v as usize % NP
}

pub fn two_mut<T>(v: &mut [T], a: usize, b: usize) -> (&mut T, &mut T) {
    assert!(a != b);
    if a < b {
        let (l, r) = v.split_at_mut(b);
        (&mut l[a], &mut r[0])
    } else {
        let (l, r) = v.split_at_mut(a);
        (&mut r[0], &mut l[b])
    }
}

macro_rules! own {
    ($w:ident . $p:ident [ $i:expr ], $take:expr) => {
        if $take {
            core::mem::take(&mut $w.$p[$i])
        } else {
            $w.$p[$i].clone()
        }
    };
}
pub(crate) use own;

/// The eight ownership / assignment forms of a same-pool binary operator.
macro_rules! binop_forms {
    ($w:ident, $env:ident, $op:ident, $p:ident, $P:expr, $tr:tt, $tra:tt) => {{
        let (a, b, dst) = (ix($op.a), ix($op.b), ix($op.dst));
        let take = $op.form & 256 != 0;
        match ($op.form & 255) % 8 {
            0 => {
                let x = own!($w.$p[a], take);
                let y = own!($w.$p[b], take);
                $w.$p[dst] = x $tr y;
                $env.res($P, dst);
            }
            1 => {
                let x = own!($w.$p[a], take);
                let r = x $tr &$w.$p[b];
                $w.$p[dst] = r;
                $env.res($P, dst);
            }
            2 => {
                let y = own!($w.$p[b], take);
                let r = &$w.$p[a] $tr y;
                $w.$p[dst] = r;
                $env.res($P, dst);
            }
            3 => {
                let r = &$w.$p[a] $tr &$w.$p[b];
                $w.$p[dst] = r;
                $env.res($P, dst);
            }
            4 => {
                let mut x = own!($w.$p[a], take);
                let y = own!($w.$p[b], take);
                x $tra y;
                $w.$p[dst] = x;
                $env.res($P, dst);
            }
            5 => {
                let mut x = own!($w.$p[a], take);
                x $tra &$w.$p[b];
                $w.$p[dst] = x;
                $env.res($P, dst);
            }
            6 => {
                // in place on the pool slot itself: a crash leaves the slot as the operation left it
                let y = $w.$p[b].clone();
                $w.$p[a] $tra y;
                $env.res($P, a);
            }
            _ => {
                if a == b {
                    let y = $w.$p[b].clone();
                    $w.$p[a] $tra &y;
                } else {
                    let (x, y) = two_mut(&mut $w.$p, a, b);
                    *x $tra &*y;
                }
                $env.res($P, a);
            }
        }
    }};
}
pub(crate) use binop_forms;

/// forms of `lhs(pool p) op rhs(pool q)` with result in pool p (IBig op UBig ...)
macro_rules! mixed_forms {
    ($w:ident, $env:ident, $op:ident, $p:ident, $q:ident, $P:expr, $tr:tt, $tra:tt, $conv:expr) => {{
        let (a, b, dst) = (ix($op.a), ix($op.b), ix($op.dst));
        match ($op.form & 255) % 7 {
            0 => {
                let r = $w.$p[a].clone() $tr $w.$q[b].clone();
                $w.$p[dst] = r;
            }
            1 => {
                let r = $w.$p[a].clone() $tr &$w.$q[b];
                $w.$p[dst] = r;
            }
            2 => {
                let r = &$w.$p[a] $tr $w.$q[b].clone();
                $w.$p[dst] = r;
            }
            3 => {
                let r = &$w.$p[a] $tr &$w.$q[b];
                $w.$p[dst] = r;
            }
            4 => {
                let mut x = $w.$p[a].clone();
                x $tra $w.$q[b].clone();
                $w.$p[dst] = x;
            }
            5 => {
                let mut x = $w.$p[a].clone();
                x $tra &$w.$q[b];
                $w.$p[dst] = x;
            }
            _ => {
                // reference form: convert the right operand first, then the same-type operator
                let y = $conv(&$w.$q[b]);
                let r = &$w.$p[a] $tr &y;
                $w.$p[dst] = r;
            }
        }
        $env.res($P, dst);
    }};
}
pub(crate) use mixed_forms;

pub fn exec(w: &mut World, op: &Op, env: &mut Env) {
    if let Some(f) = op.fault {
        if f.kind != FaultKind::Alloc {
            env.cb_fault = Some((f.kind, f.k.max(1)));
        }
    }
    let name = op.name.as_str();
    let (fam, rest) = name.split_once('.').unwrap_or((name, ""));
    if crate::exec_conv::handles(rest) {
        return crate::exec_conv::exec(w, op, fam, rest, env);
    }
    if crate::exec_third::handles(rest) {
        return crate::exec_third::exec(w, op, fam, rest, env);
    }
    match fam {
        "u" => crate::exec_int::exec_u(w, op, rest, env),
        "i" => crate::exec_int::exec_i(w, op, rest, env),
        "iu" | "ui" => crate::exec_int::exec_mixed(w, op, fam, rest, env),
        "up" | "ip" => crate::exec_int::exec_prim(w, op, fam, rest, env),
        "m" => crate::exec_int::exec_mod(w, op, rest, env),
        "f" => crate::exec_float::exec_f::<mode::Zero, 2>(w, op, rest, env),
        "d" => crate::exec_float::exec_f::<mode::HalfAway, 10>(w, op, rest, env),
        "fd" => crate::exec_float::exec_fd(w, op, rest, env),
        "med" => crate::exec_medium::exec_med(w, op, rest, env),
        "xc" => crate::exec_cross::exec_xc(w, op, rest, env),
        "rbig" => crate::exec_ratio::exec_rbig(w, op, rest, env),
        "r" => crate::exec_ratio::exec_r(w, op, rest, env),
        "x" => crate::exec_ratio::exec_x(w, op, rest, env),
        "nop" => {}
        _ => untracked(|| panic!("dsim: unknown op family {}", name)),
    }
}

// helpers shared by the exec_* modules
pub fn bits_of(lit: &[u8]) -> usize {
    lit.len() * 8
}

pub fn emit_int_queries(env: &mut Env, v: &IBig, n: usize) {
    env.emit_u64("bit_len", v.bit_len() as u64);
    env.emit_u64("bit", v.bit(n) as u64);
    env.emit_opt("tz", v.trailing_zeros());
    env.emit_sign("sign", v.sign());
    env.emit_u64("is_zero", v.is_zero() as u64);
    env.emit_u64("is_one", v.is_one() as u64);
}

