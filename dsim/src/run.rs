//! Running one operation list against the real library inside the simulated environment,
//! with the C17 oracles (heap audit, structural invariants, conservation, shadow differential).

use crate::ops::{FaultKind, Op};
use crate::simalloc::{self, RunCfg};
use crate::view::*;
use crate::world::*;
use dashu_base::Sign;
use std::collections::BTreeMap;
use std::panic::{catch_unwind, AssertUnwindSafe};
use std::sync::atomic::{AtomicU64, Ordering::Relaxed};

pub static CUR_RUN: AtomicU64 = AtomicU64::new(0);
pub static CUR_STEP: AtomicU64 = AtomicU64::new(0);
/// expected panics are being caught outside a tracked region (F7 builds its shared values that way)
pub static QUIET: std::sync::atomic::AtomicBool = std::sync::atomic::AtomicBool::new(false);

// ------------------------------------------------------------------ panic capture
#[derive(Clone, Copy)]
pub struct PanicRec {
    pub msg: [u8; 160],
    pub mlen: usize,
    pub file: [u8; 120],
    pub flen: usize,
    pub line: u32,
}
impl PanicRec {
    pub fn msg(&self) -> &str {
        std::str::from_utf8(&self.msg[..self.mlen]).unwrap_or("?")
    }
    pub fn file(&self) -> &str {
        std::str::from_utf8(&self.file[..self.flen]).unwrap_or("?")
    }
    /// where the panic was raised: "dashu" (library code), "dsim" (deliberate callback fault),
    /// "rust" (std/alloc/core), "harness" (a bug in the simulator itself)
    pub fn origin(&self) -> &'static str {
        let f = self.file();
        if self.msg().starts_with("dsim: sink panic") || self.msg().starts_with("dsim: iterator panic") || self.msg().starts_with("dsim: rng panic") {
            "dsim"
        } else if f.starts_with("/repo/") {
            "dashu"
        } else if f.starts_with("/rustc/") || f.starts_with("library/") || f.contains("/lib/rustlib/") {
            "rust"
        } else if f.contains(".cargo/registry") {
            "thirdparty"
        } else {
            "harness"
        }
    }
    pub fn class(&self) -> &'static str {
        let m = self.msg();
        if m.contains("out of memory") || (m.contains("Option::unwrap()") && self.file().ends_with("buffer.rs")) {
            "oom"
        } else if m.contains("divisor must not be 0") || m.contains("divide by zero") || m.contains("division by zero") {
            "div0"
        } else if m.contains("UBig result must not be negative") {
            "neg_ubig"
        } else if m.contains("too much memory") {
            "too_much"
        } else if m.contains("root") {
            "root"
        } else if m.contains("different rings") || m.contains("non-invertible") {
            "ring"
        } else if m.contains("precision") || m.contains("infinit") || m.contains("inf") {
            "float_domain"
        } else if m.starts_with("dsim:") {
            "callback"
        } else {
            "other"
        }
    }
}

struct PanicCell(std::cell::UnsafeCell<Option<PanicRec>>);
// SAFETY: native workers are single-threaded; under Miri (F7) the hook only runs in thread-confined tests
unsafe impl Sync for PanicCell {}
static LAST_PANIC: PanicCell = PanicCell(std::cell::UnsafeCell::new(None));

struct FixedBuf<'a> {
    buf: &'a mut [u8],
    len: usize,
}
impl<'a> std::fmt::Write for FixedBuf<'a> {
    fn write_str(&mut self, s: &str) -> std::fmt::Result {
        let n = s.len().min(self.buf.len() - self.len);
        self.buf[self.len..self.len + n].copy_from_slice(&s.as_bytes()[..n]);
        self.len += n;
        Ok(())
    }
}

pub fn install_panic_hook() {
    std::panic::set_hook(Box::new(|info| {
        use std::fmt::Write;
        let mut rec = PanicRec { msg: [0; 160], mlen: 0, file: [0; 120], flen: 0, line: 0 };
        {
            let mut w = FixedBuf { buf: &mut rec.msg, len: 0 };
            if let Some(s) = info.payload().downcast_ref::<&str>() {
                let _ = w.write_str(s);
            } else if let Some(s) = info.payload().downcast_ref::<String>() {
                let _ = w.write_str(s);
            } else {
                let _ = w.write_str("<non-string payload>");
            }
            rec.mlen = w.len;
            // keep it valid utf-8 after truncation
            while rec.mlen > 0 && std::str::from_utf8(&rec.msg[..rec.mlen]).is_err() {
                rec.mlen -= 1;
            }
        }
        if let Some(loc) = info.location() {
            let mut w = FixedBuf { buf: &mut rec.file, len: 0 };
            let _ = w.write_str(loc.file());
            rec.flen = w.len;
            while rec.flen > 0 && std::str::from_utf8(&rec.file[..rec.flen]).is_err() {
                rec.flen -= 1;
            }
            rec.line = loc.line();
        }
        if (!simalloc::tracking() && !QUIET.load(Relaxed)) || std::env::var_os("DSIM_DEBUG").is_some() {
            // not inside a simulated call: a bug of the simulator itself, say so loudly
            eprintln!("dsim: harness panic at {}:{}: {}", rec.file(), rec.line, rec.msg());
        }
        // SAFETY: see PanicCell
        unsafe { *LAST_PANIC.0.get() = Some(rec) };
    }));
}

pub fn take_panic() -> Option<PanicRec> {
    // SAFETY: see PanicCell
    unsafe { (*LAST_PANIC.0.get()).take() }
}

// ------------------------------------------------------------------ crash reporting (signals)
extern "C" {
    fn signal(signum: i32, handler: usize) -> usize;
    fn write(fd: i32, buf: *const u8, count: usize) -> isize;
    fn _exit(code: i32) -> !;
    fn alarm(seconds: u32) -> u32;
}

/// (re)arm the per-run watchdog: a run that does not finish in time is reported as `CRASH sig=14`
/// (a harness-level event: termination is not a property this simulator judges)
pub fn watchdog(seconds: u32) {
    if cfg!(miri) {
        return;
    }
    // replays of explicit cases (minimisation) ask for a shorter fuse
    let seconds = match std::env::var("DSIM_ALARM").ok().and_then(|v| v.parse::<u32>().ok()) {
        Some(s) if s > 0 => s.min(seconds),
        _ => seconds,
    };
    // SAFETY: plain libc call
    unsafe {
        alarm(seconds);
    }
}

fn put_num(buf: &mut [u8], pos: &mut usize, mut v: u64) {
    let mut tmp = [0u8; 20];
    let mut n = 0;
    loop {
        tmp[n] = b'0' + (v % 10) as u8;
        v /= 10;
        n += 1;
        if v == 0 {
            break;
        }
    }
    while n > 0 {
        n -= 1;
        buf[*pos] = tmp[n];
        *pos += 1;
    }
}

extern "C" fn on_signal(sig: i32) {
    let mut buf = [0u8; 96];
    let mut pos = 0;
    for b in b"\nCRASH sig=" {
        buf[pos] = *b;
        pos += 1;
    }
    put_num(&mut buf, &mut pos, sig as u64);
    for b in b" run=" {
        buf[pos] = *b;
        pos += 1;
    }
    put_num(&mut buf, &mut pos, CUR_RUN.load(Relaxed));
    for b in b" step=" {
        buf[pos] = *b;
        pos += 1;
    }
    put_num(&mut buf, &mut pos, CUR_STEP.load(Relaxed));
    buf[pos] = b'\n';
    pos += 1;
    // SAFETY: async-signal-safe calls only
    unsafe {
        write(1, buf.as_ptr(), pos);
        _exit(3);
    }
}

pub fn install_signal_handlers() {
    if cfg!(miri) {
        return;
    }
    // SIGSEGV 11, SIGBUS 7, SIGABRT 6, SIGILL 4, SIGFPE 8
    for s in [11, 7, 6, 4, 8, 14] {
        // SAFETY: installing a handler that only uses async-signal-safe functions
        unsafe {
            signal(s, on_signal as usize);
        }
    }
}

// ------------------------------------------------------------------ statistics
pub const SIG_BITS: usize = 1 << 20;

/// probe keys built at run time (harness memory, never tracked)
pub fn intern(s: &str) -> &'static str {
    static TABLE: std::sync::Mutex<Vec<&'static str>> = std::sync::Mutex::new(Vec::new());
    let mut t = TABLE.lock().unwrap_or_else(|e| e.into_inner());
    if let Some(k) = t.iter().find(|k| **k == s) {
        return k;
    }
    let k: &'static str = Box::leak(s.to_string().into_boxed_str());
    t.push(k);
    k
}

pub struct Stats {
    pub runs: u64,
    pub steps: u64,
    pub skipped: u64,
    pub panics: BTreeMap<&'static str, u64>,
    pub fault_configured: BTreeMap<&'static str, u64>,
    pub fault_fired: BTreeMap<&'static str, u64>,
    pub fallible_events: u64,
    pub probes: BTreeMap<&'static str, u64>,
    pub sig_all: Vec<u64>,
    pub sig_nontrivial: Vec<u64>,
    pub allocs: u64,
    pub reallocs_moved: u64,
    pub reallocs_inplace: u64,
    pub frees: u64,
    pub shadow_steps: u64,
    pub samples: Vec<String>,
}

impl Stats {
    pub fn new() -> Stats {
        Stats {
            runs: 0,
            steps: 0,
            skipped: 0,
            panics: BTreeMap::new(),
            fault_configured: BTreeMap::new(),
            fault_fired: BTreeMap::new(),
            fallible_events: 0,
            probes: BTreeMap::new(),
            sig_all: vec![0; SIG_BITS / 64],
            sig_nontrivial: vec![0; SIG_BITS / 64],
            allocs: 0,
            reallocs_moved: 0,
            reallocs_inplace: 0,
            frees: 0,
            shadow_steps: 0,
            samples: Vec::new(),
        }
    }
    pub fn bump(map: &mut BTreeMap<&'static str, u64>, k: &'static str) {
        *map.entry(k).or_insert(0) += 1;
    }
    pub fn probe(&mut self, k: &'static str) {
        Self::bump(&mut self.probes, k);
    }
    pub fn sig(&mut self, h: u64, nontrivial: bool) {
        let i = (h as usize) % SIG_BITS;
        self.sig_all[i / 64] |= 1 << (i % 64);
        if nontrivial {
            self.sig_nontrivial[i / 64] |= 1 << (i % 64);
        }
    }
    pub fn count(bits: &[u64]) -> u64 {
        bits.iter().map(|w| w.count_ones() as u64).sum()
    }
    pub fn to_json(&self) -> serde_json::Value {
        let hex = |bits: &[u64]| {
            // sparse encoding: list of set bit indexes
            let mut v = Vec::new();
            for (i, w) in bits.iter().enumerate() {
                let mut x = *w;
                while x != 0 {
                    let t = x.trailing_zeros();
                    v.push((i * 64) as u64 + t as u64);
                    x &= x - 1;
                }
            }
            v
        };
        serde_json::json!({
            "runs": self.runs, "steps": self.steps, "skipped_steps": self.skipped,
            "panics": self.panics, "fault_configured": self.fault_configured, "fault_fired": self.fault_fired,
            "fallible_events": self.fallible_events, "probes": self.probes,
            "sig_all": hex(&self.sig_all), "sig_nontrivial": hex(&self.sig_nontrivial),
            "allocs": self.allocs, "reallocs_moved": self.reallocs_moved, "reallocs_inplace": self.reallocs_inplace,
            "frees": self.frees, "shadow_steps": self.shadow_steps, "samples": self.samples,
        })
    }
}

// ------------------------------------------------------------------ running
#[derive(Clone, Debug)]
pub struct Violation {
    pub class: String,
    pub step: usize,
    pub detail: String,
}

pub struct Outcome {
    pub violation: Option<Violation>,
    /// harness-side problem (never a verdict)
    pub harness_error: Option<String>,
    pub chain: u64,
    pub steps_done: usize,
    /// fallible allocation events observed per step (fault-free recording for enumeration)
    pub fallible: Vec<u32>,
    /// calls of caller-supplied callbacks (fmt sinks, iterators) observed per step
    pub callbacks: Vec<u32>,
    /// first violation of a class that does not stop the run
    pub soft: Option<Violation>,
}

#[derive(Clone, Copy, PartialEq, Eq, Debug)]
pub enum OracleSet {
    /// heap audit + structure + conservation (+ shadow if requested)
    C17,
    /// no storage oracles (used by value-level checks that bring their own after-step hook)
    None,
}

pub struct RunOpts {
    pub cfg: RunCfg,
    pub garbage_seed: u64,
    pub shadow: bool,
    pub oracles: OracleSet,
    pub want_text: bool,
    /// steps that embed a comparison oracle of their own (relations in further bases) report through `env.violation`
    pub cmp_oracle: bool,
}

pub trait StepHook {
    /// called after every step with tracking OFF; may inspect the world and report a violation
    fn after_step(&mut self, _w: &mut World, _op: &Op, _env: &Env, _panicked: Option<&PanicRec>, _step: usize) -> Option<Violation> {
        None
    }
    fn text_line(&mut self, _line: &str) {}
    /// a violation of a class that does not stop the run, noticed by the last `after_step`
    fn take_soft(&mut self) -> Option<Violation> {
        None
    }
}
pub struct NoHook;
impl StepHook for NoHook {}

fn mix(chain: u64, x: u64) -> u64 {
    let mut d = Dig(chain);
    d.u64(x);
    d.0
}

struct Owned {
    blocks: [usize; 64],
    n: usize,
}

/// structural audit of all integer components + conservation against the allocator registry
fn audit_world(w: &World) -> Option<(String, String)> {
    let mut owned = Owned { blocks: [0; 64], n: 0 };
    let mut bad: Option<(String, String)> = None;
    w.for_each_int(|pool, k, comp, v| {
        if bad.is_some() {
            return;
        }
        let (s, words) = v.as_sign_words();
        let a = audit_int(v as *const _ as usize, core::mem::size_of::<dashu_int::IBig>(), s, words, true);
        if let Some(viol) = a.violation {
            bad = Some((
                viol.name().to_string(),
                format!("{:?}[{}].{} len={} sign={:?}", pool, k, comp, words.len(), s),
            ));
            return;
        }
        if let Some(b) = a.block {
            if owned.blocks[..owned.n].contains(&b) {
                bad = Some((StructViolation::SharedBuffer.name().to_string(), format!("{:?}[{}].{}", pool, k, comp)));
                return;
            }
            if owned.n < 64 {
                owned.blocks[owned.n] = b;
                owned.n += 1;
            }
        }
    });
    if bad.is_some() {
        return bad;
    }
    if simalloc::HAS_REGISTRY {
        for b in simalloc::live_blocks() {
            if !owned.blocks[..owned.n].contains(&b.user) {
                return Some(("heap.leak".to_string(), format!("block of {} bytes (serial {}) owned by no live value", b.size, b.serial)));
            }
        }
    }
    None
}

fn layout_code(w: &World, p: Pool, k: usize) -> u8 {
    let f = |v: &dashu_int::IBig| layout_of_ibig(v).code();
    match p {
        Pool::U => f(w.u[k].as_ibig()),
        Pool::I => f(&w.i[k]),
        Pool::F => f(w.f[k].repr().significand()),
        Pool::D => f(w.d[k].repr().significand()),
        Pool::R => f(w.r[k].numerator()) ^ (f(w.r[k].denominator().as_ibig()) << 1),
        Pool::X => f(w.x[k].numerator()) ^ (f(w.x[k].denominator().as_ibig()) << 1),
    }
}

fn primary_pool(name: &str) -> Pool {
    match name.as_bytes().first() {
        Some(b'u') => Pool::U,
        Some(b'i') => Pool::I,
        Some(b'f') => Pool::F,
        Some(b'd') => Pool::D,
        Some(b'r') => Pool::R,
        Some(b'x') => Pool::X,
        _ => Pool::U,
    }
}

fn block_of(w: &World, p: Pool, k: usize) -> usize {
    let f = |v: &dashu_int::IBig| {
        let (_, words) = v.as_sign_words();
        if words.len() > 2 {
            words.as_ptr() as usize
        } else {
            0
        }
    };
    match p {
        Pool::U => f(w.u[k].as_ibig()),
        Pool::I => f(&w.i[k]),
        _ => 0,
    }
}

pub fn run_ops(ops: &[Op], opts: &RunOpts, stats: &mut Stats, hook: &mut dyn StepHook) -> Outcome {
    simalloc::begin_run(opts.cfg, opts.garbage_seed);
    let mut out = Outcome { violation: None, harness_error: None, chain: 0x5EED, steps_done: 0, fallible: Vec::with_capacity(ops.len()), callbacks: Vec::with_capacity(ops.len()), soft: None };
    let mut env = Env::new(opts.want_text);
    env.cmp_oracle = opts.cmp_oracle;
    simalloc::track(true);
    let mut w = World::new();
    simalloc::track(false);
    let c17 = opts.oracles == OracleSet::C17;

    for (k, op) in ops.iter().enumerate() {
        CUR_STEP.store(k as u64, Relaxed);
        env.reset();
        // --- signature ingredients (before)
        let pp = primary_pool(&op.name);
        let (la, lb) = (layout_code(&w, pp, ix(op.a)), layout_code(&w, pp, ix(op.b)));
        let dst_block_before = block_of(&w, pp, ix(op.dst));
        let overlong_before = w.any_overlong_float();
        let has_fault = op.fault.is_some();
        let alloc_fault = matches!(op.fault, Some(f) if f.kind == FaultKind::Alloc);
        if let Some(f) = op.fault {
            Stats::bump(
                &mut stats.fault_configured,
                match f.kind {
                    FaultKind::Alloc => "alloc_null",
                    FaultKind::CbErr => "callback_err",
                    FaultKind::CbPanic => "callback_panic",
                },
            );
        }

        // --- shadow world: same values, freshly rebuilt; executes the same step fault-free
        let mut shadow_digest: Option<(u64, u64, bool, bool)> = None;
        if opts.shadow && !has_fault {
            simalloc::track(true);
            let r = catch_unwind(AssertUnwindSafe(|| {
                let mut sh = w.rebuild();
                let mut senv = Env::new(false);
                let pr = catch_unwind(AssertUnwindSafe(|| exec(&mut sh, op, &mut senv)));
                let panicked = pr.is_err();
                drop(pr);
                let d = (int_digest(&sh), senv.dig.0, panicked, senv.skipped);
                drop(sh);
                d
            }));
            simalloc::track(false);
            let _ = take_panic();
            match r {
                Ok(d) => shadow_digest = Some(d),
                Err(_) => {} // rebuilding itself failed (e.g. value corrupted earlier): structural audit will tell
            }
            stats.shadow_steps += 1;
        }

        // --- the step itself
        simalloc::reset_event_counters();
        if alloc_fault {
            simalloc::arm_fault(op.fault.unwrap().k as u64);
        }
        simalloc::track(true);
        let r = catch_unwind(AssertUnwindSafe(|| exec(&mut w, op, &mut env)));
        let panicked = r.is_err();
        drop(r);
        simalloc::track(false);
        simalloc::disarm_fault();
        let prec = if panicked { take_panic() } else { None };
        let fired = simalloc::faults_fired() > 0;
        let fall = simalloc::fallible_events();
        stats.fallible_events += fall;
        out.fallible.push(fall.min(u32::MAX as u64) as u32);
        out.callbacks.push(env.cb_calls);
        stats.steps += 1;
        if env.skipped {
            stats.skipped += 1;
        }
        if fired {
            Stats::bump(&mut stats.fault_fired, "alloc_null");
        }
        if env.cb_fired {
            Stats::bump(
                &mut stats.fault_fired,
                match env.cb_fault {
                    Some((FaultKind::CbPanic, _)) => "callback_panic",
                    _ => "callback_err",
                },
            );
        }
        let mut pclass = "";
        if let Some(p) = &prec {
            match p.origin() {
                "harness" => {
                    out.harness_error = Some(format!("harness panic at {}:{}: {}", p.file(), p.line, p.msg()));
                    break;
                }
                _ => {}
            }
            pclass = p.class();
            Stats::bump(&mut stats.panics, pclass);
        } else if panicked {
            pclass = "unknown";
        }
        if simalloc::overflowed() {
            out.harness_error = Some("allocator registry overflow".into());
            break;
        }

        // --- oracles
        if let Some((class, detail)) = untracked(|| env.soft.take()) {
            if out.soft.is_none() {
                out.soft = Some(Violation { class, step: k, detail });
            }
        }
        if let Some((class, detail)) = untracked(|| env.violation.take()) {
            out.violation = Some(Violation { class, step: k, detail });
            break;
        }
        if c17 {
            simalloc::check_canaries();
            if let Some((v, serial)) = simalloc::take_violation() {
                out.violation = Some(Violation { class: v.name().into(), step: k, detail: format!("allocator event, block serial {}", serial) });
                break;
            }
            if let Some((class, detail)) = audit_world(&w) {
                let class = if class == "heap.leak" && panicked { "heap.leak_on_unwind".to_string() } else { class };
                out.violation = Some(Violation { class, step: k, detail });
                break;
            }
            if let Some((sd, sdig, spanic, sskip)) = shadow_digest {
                let d = int_digest(&w);
                if (sd, sdig, spanic, sskip) != (d, env.dig.0, panicked, env.skipped) {
                    out.violation = Some(Violation {
                        class: "shadow.diverge".into(),
                        step: k,
                        detail: format!(
                            "result differs from the same step on freshly rebuilt equal values (panicked {} vs {}, skipped {} vs {})",
                            panicked, spanic, env.skipped, sskip
                        ),
                    });
                    break;
                }
            }
        }
        match catch_unwind(AssertUnwindSafe(|| hook.after_step(&mut w, op, &env, prec.as_ref(), k))) {
            Ok(Some(v)) => {
                out.violation = Some(v);
                break;
            }
            Ok(None) => {
                if let Some(v) = hook.take_soft() {
                    if out.soft.is_none() {
                        out.soft = Some(v);
                    }
                }
            }
            Err(_) => {
                // the oracle itself only calls read-only dashu operations (==, cmp, hash, accessors)
                let p = take_panic();
                match p {
                    Some(p) if p.origin() == "dashu" => {
                        out.violation = Some(Violation {
                            class: "oracle.dashu_panic".into(),
                            step: k,
                            detail: format!("read-only operation panicked at {}:{}: {}", p.file(), p.line, p.msg()),
                        });
                    }
                    Some(p) => out.harness_error = Some(format!("oracle panic at {}:{}: {}", p.file(), p.line, p.msg())),
                    None => out.harness_error = Some("oracle panic (unknown)".into()),
                }
                break;
            }
        }

        // --- event log digest, coverage signature, probes
        let mut sd = Dig::new();
        for i in 0..env.nres {
            let (p, s) = env.results[i];
            w.dig_slot(&mut sd, p, s as usize);
        }
        sd.u64(env.dig.0);
        sd.u64(panicked as u64);
        sd.u64(env.skipped as u64);
        out.chain = mix(out.chain, sd.0);
        if opts.want_text {
            let mut line = format!("{} {}", k, op.to_line());
            for i in 0..env.nres {
                let (p, s) = env.results[i];
                line.push_str(&format!(" {:?}{}={}", p, s, w.text_slot(p, s as usize)));
            }
            if let Some(t) = &env.text {
                line.push_str(t);
            }
            if panicked {
                // (an allocator refusal is an environment event: which allocation site meets it first is not a result)
                let msg: String = if pclass == "oom" { String::new() } else { prec.as_ref().map(|p| p.msg().chars().take(90).collect()).unwrap_or_default() };
                // the message is informative only: which internal assertion fires first may differ between builds
                // although every build panics; comparisons use the line without the «...» part
                line.push_str(&format!(" panic:{}\u{ab}{}\u{bb}", pclass, msg));
            }
            if env.skipped {
                line.push_str(" skipped");
            }
            hook.text_line(&line);
        }
        {
            let mut sg = Dig::new();
            sg.bytes(op.name.as_bytes());
            sg.u64(op.form as u64);
            sg.u64(la as u64);
            sg.u64(lb as u64);
            let mut heapish = (la >= b'a' && la != b'S') || (lb >= b'a' && lb != b'S');
            for i in 0..env.nres {
                let (p, s) = env.results[i];
                let c = layout_code(&w, p, s as usize);
                sg.u64(c as u64);
                heapish |= c >= b'a';
            }
            sg.u64(fired as u64 + 2 * env.cb_fired as u64);
            sg.bytes(pclass.as_bytes());
            stats.sig(sg.0, heapish || fired || env.cb_fired);
        }
        if op.name.ends_with(".clonefrom") && (pp == Pool::U || pp == Pool::I) && !panicked {
            let after = block_of(&w, pp, ix(op.dst));
            match (dst_block_before != 0, after != 0) {
                (true, true) if after == dst_block_before => stats.probe("clone_from.reuse"),
                (true, true) => stats.probe("clone_from.resize"),
                (true, false) => stats.probe("clone_from.heap_to_inline"),
                (false, true) => stats.probe("clone_from.inline_to_heap"),
                _ => stats.probe("clone_from.inline"),
            }
        }
        if !overlong_before && !op.name.starts_with("med.") {
            // reach probe: which of dashu's own producers hand out a float holding more digits than its precision
            for i in 0..env.nres {
                let (p, s) = env.results[i];
                if w.overlong_slot(p, s as usize) {
                    stats.probe(intern(&format!("overlong_float_result.{}", op.name)));
                }
            }
        }
        if fired && panicked {
            stats.probe("oom_panic_unwound");
        }
        if fired && !panicked {
            stats.probe("fault_fired_no_panic");
        }

        // --- history bound (a dashu operation: dropping oversized values), then next step
        simalloc::track(true);
        let r = catch_unwind(AssertUnwindSafe(|| w.cap()));
        simalloc::track(false);
        if r.is_err() {
            let _ = take_panic();
        }
        out.steps_done = k + 1;
    }

    // --- end of run: drop the world (unless it may be corrupt), final leak check
    if out.violation.is_some() || out.harness_error.is_some() {
        std::mem::forget(w);
        simalloc::end_run();
        let _ = simalloc::take_violation();
    } else {
        simalloc::track(true);
        let r = catch_unwind(AssertUnwindSafe(|| drop(w)));
        simalloc::track(false);
        if r.is_err() {
            let _ = take_panic();
        }
        let heap_v = simalloc::take_violation();
        let leaked = simalloc::end_run();
        let late = simalloc::take_violation();
        if c17 {
            if let Some((v, serial)) = heap_v.or(late) {
                out.violation = Some(Violation { class: v.name().into(), step: ops.len(), detail: format!("at final drop, block serial {}", serial) });
            } else if leaked > 0 {
                out.violation = Some(Violation { class: "heap.leak".into(), step: ops.len(), detail: format!("{} blocks live after dropping every value", leaked) });
            }
        }
    }
    let a = simalloc::stats();
    stats.allocs += a.allocs;
    stats.reallocs_moved += a.reallocs_moved;
    stats.reallocs_inplace += a.reallocs_inplace;
    stats.frees += a.frees;
    stats.runs += 1;
    out
}

/// digest of the integer pools only (the C17 shadow differential is about the integer storage)
pub fn int_digest(w: &World) -> u64 {
    let mut d = Dig::new();
    for v in &w.u {
        dig_ubig(&mut d, v);
    }
    for v in &w.i {
        dig_ibig(&mut d, v);
    }
    d.finish()
}

#[allow(dead_code)]
fn _sign_used(_: Sign) {}

/// coverage signature of one executed step (used by the value-level checks that drive their own loop)
pub fn record_sig(stats: &mut Stats, w: &World, op: &Op, env: &Env, pclass: &str, la: u8, lb: u8) {
    let mut sg = Dig::new();
    sg.bytes(op.name.as_bytes());
    sg.u64(op.form as u64);
    sg.u64(la as u64);
    sg.u64(lb as u64);
    let mut heapish = (la >= b'a' && la != b'S') || (lb >= b'a' && lb != b'S');
    for i in 0..env.nres {
        let (p, s) = env.results[i];
        let c = layout_code(w, p, s as usize);
        sg.u64(c as u64);
        heapish |= c >= b'a';
    }
    sg.bytes(pclass.as_bytes());
    stats.sig(sg.0, heapish);
}

pub fn operand_layouts(w: &World, op: &Op) -> (u8, u8) {
    let pp = primary_pool(&op.name);
    (layout_code(w, pp, ix(op.a)), layout_code(w, pp, ix(op.b)))
}
