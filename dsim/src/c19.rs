//! C19 (a): one recorded execution, many builds. The operation list is defined without reference to the
//! word size; every step's results are rendered canonically (own read-back, never `Debug` of big values)
//! and the transcripts of the same seeds are compared across build configurations by the driver.

use crate::case::Case;
use crate::gen;
use crate::ops::Op;
use crate::prng::{run_seed, Rng};
use crate::run::*;
use crate::view::Dig;

pub fn gen_case(seed: u64, index: u64) -> Case {
    let rs = run_seed(seed, "C19", index);
    let mut rng = Rng::new(rs);
    let mut sw = gen::Swarm::draw(&mut rng);
    sw.w_panic = sw.w_panic.min(1);
    sw.w_query = sw.w_query.max(6);
    sw.w_conv = sw.w_conv.max(8);
    sw.w_float = sw.w_float.max(10);
    sw.w_ratio = sw.w_ratio.max(6);
    let cfg = crate::simalloc::RunCfg { fill: 0, realloc_move: true, misalign: false };
    let len = 6 + rng.below(40) as usize;
    let mut ops = gen::gen_history(&mut rng, &sw, len, 0);
    for op in ops.iter_mut().skip(3) {
        if rng.chance(1, 7) {
            // fault-free encodings: the bytes themselves must be identical in every build
            let mut m = crate::c19m::gen_medium_op(&mut rng);
            if m.name != "med.twin" {
                m.m = 0;
            }
            *op = m;
        }
    }
    for op in ops.iter_mut() {
        sanitize(op);
    }
    Case { property: "C19".into(), seed, run: index, cfg, fill2: 0, shadow: false, enumerate: false, garbage_seed: 1, ops }
}

/// Remove the few outputs that are documented to depend on the word size (Debug rendering of big values).
pub fn sanitize(op: &mut Op) {
    let n = op.name.as_str();
    if n == "u.fmt" || n == "i.fmt" {
        if matches!(op.form % 10, 5 | 6) {
            op.form = 0;
        }
    } else if n == "f.fmt" || n == "d.fmt" {
        if matches!(op.form % 6, 1 | 2) {
            op.form = 0;
        }
    } else if n == "r.fmt" || n == "x.fmt" {
        if matches!(op.form % 4, 1 | 2) {
            op.form = 0;
        }
    } else if n == "m.ring" && op.n.unsigned_abs() % 14 == 13 {
        op.n = 0; // Debug of a ring element
    }
}

pub struct Transcript {
    pub lines: Vec<String>,
    pub keep: bool,
    pub dig: Dig,
}
impl StepHook for Transcript {
    fn text_line(&mut self, line: &str) {
        // hash without the informative «message» of a panic
        // ... and without the panic class: "every build panics" is agreement, whichever check fires first
        match (line.find(" panic:"), line.find('\u{ab}'), line.rfind('\u{bb}')) {
            (Some(p), Some(i), Some(j)) if j > i && i > p => {
                self.dig.bytes(line[..p].as_bytes());
                self.dig.bytes(b" panic");
                self.dig.bytes(line[j + '\u{bb}'.len_utf8()..].as_bytes());
            }
            _ => self.dig.bytes(line.as_bytes()),
        }
        if self.keep {
            self.lines.push(line.to_string());
        }
    }
}

pub fn run_transcript(case: &Case, stats: &mut Stats, keep: bool) -> (Outcome, Transcript) {
    let mut t = Transcript { lines: Vec::new(), keep, dig: Dig::new() };
    let opts = RunOpts { cfg: case.cfg, garbage_seed: 1, shadow: false, oracles: OracleSet::None, want_text: true, cmp_oracle: false };
    let o = run_ops(&case.ops, &opts, stats, &mut t);
    (o, t)
}
