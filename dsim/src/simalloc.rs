//! The simulated global allocator: the one environment seam dashu really has.
//!
//! Real dashu code reaches it through `alloc::alloc::{alloc, realloc, dealloc}`. Native mode:
//! headers + canaries + registry of live "tracked" blocks (allocated while a dashu call is in
//! flight) + poisoned quarantine + fill patterns + placement policy + one-shot allocation failure
//! at the k-th request issued from a site where dashu checks for null (`dashu_int::verif`).
//! Under Miri: pass-through plus the failure injection only (Miri's own heap model is the oracle).

use std::alloc::{GlobalAlloc, Layout, System};
use std::sync::atomic::{AtomicBool, AtomicI64, AtomicU64, Ordering::Relaxed};

pub struct SimAlloc;

// ---- state shared by both modes (atomics: F7 runs threads under Miri) ----
static TRACK: AtomicBool = AtomicBool::new(false);
/// countdown to the injected failure: when it reaches 0 on a fallible event, return null. <0 = disarmed
static FAULT_IN: AtomicI64 = AtomicI64::new(-1);
static FAULT_FIRED: AtomicU64 = AtomicU64::new(0);
static FALLIBLE_EVENTS: AtomicU64 = AtomicU64::new(0);
/// per marked call site (index = dashu_int::verif::SITE_*): requests seen / failed (cumulative over the process)
static SITE_SEEN: [AtomicU64; 5] = [AtomicU64::new(0), AtomicU64::new(0), AtomicU64::new(0), AtomicU64::new(0), AtomicU64::new(0)];
static SITE_FAILED: [AtomicU64; 5] = [AtomicU64::new(0), AtomicU64::new(0), AtomicU64::new(0), AtomicU64::new(0), AtomicU64::new(0)];

pub const SITE_NAMES: [&str; 5] = ["unknown", "buffer_alloc", "buffer_realloc", "into_boxed_slice_realloc", "scratch_memory_alloc"];
pub fn site_counters() -> Vec<(&'static str, u64, u64)> {
    (0..5).map(|i| (SITE_NAMES[i], SITE_SEEN[i].load(Relaxed), SITE_FAILED[i].load(Relaxed))).collect()
}

pub fn track(on: bool) -> bool {
    TRACK.swap(on, Relaxed)
}
pub fn tracking() -> bool {
    TRACK.load(Relaxed)
}
/// Fail the k-th (1-based) fallible allocation event from now on (one shot).
pub fn arm_fault(k: u64) {
    FAULT_IN.store(k as i64, Relaxed);
}
pub fn disarm_fault() {
    FAULT_IN.store(-1, Relaxed);
}
pub fn faults_fired() -> u64 {
    FAULT_FIRED.load(Relaxed)
}
pub fn fallible_events() -> u64 {
    FALLIBLE_EVENTS.load(Relaxed)
}
pub fn reset_event_counters() {
    FALLIBLE_EVENTS.store(0, Relaxed);
    FAULT_FIRED.store(0, Relaxed);
}

#[inline]
fn should_fail() -> bool {
    if !TRACK.load(Relaxed) || !dashu_int::verif::in_fallible_site() || std::thread::panicking() {
        // (while a panic is being raised std allocates the payload: never fail that)
        return false;
    }
    FALLIBLE_EVENTS.fetch_add(1, Relaxed);
    let site = (dashu_int::verif::current_site() as usize).min(4);
    SITE_SEEN[site].fetch_add(1, Relaxed);
    let c = FAULT_IN.load(Relaxed);
    if c < 0 {
        return false;
    }
    if c <= 1 {
        FAULT_IN.store(-1, Relaxed);
        FAULT_FIRED.fetch_add(1, Relaxed);
        SITE_FAILED[site].fetch_add(1, Relaxed);
        true
    } else {
        FAULT_IN.store(c - 1, Relaxed);
        false
    }
}

#[derive(Clone, Copy, Debug, PartialEq, Eq)]
pub enum HeapViolation {
    DoubleFree,
    InvalidFree,
    MismatchedFree,
    CanaryHead,
    CanaryTail,
    WriteAfterFree,
}

impl HeapViolation {
    pub fn name(self) -> &'static str {
        match self {
            HeapViolation::DoubleFree => "heap.double_free",
            HeapViolation::InvalidFree => "heap.invalid_free",
            HeapViolation::MismatchedFree => "heap.mismatched_free",
            HeapViolation::CanaryHead => "heap.oob_before",
            HeapViolation::CanaryTail => "heap.oob_after",
            HeapViolation::WriteAfterFree => "heap.write_after_free",
        }
    }
}

#[derive(Clone, Copy, Debug)]
pub struct Block {
    pub user: usize,
    pub size: usize,
    pub align: usize,
    pub serial: u64,
}

#[derive(Clone, Copy, Default, Debug)]
pub struct AllocStats {
    pub allocs: u64,
    pub reallocs: u64,
    pub reallocs_moved: u64,
    pub reallocs_inplace: u64,
    pub frees: u64,
    pub bytes: u64,
    pub refused: u64,
}

// =====================================================================================
#[cfg(not(miri))]
mod native {
    use super::*;
    use std::cell::UnsafeCell;

    const MAGIC_LIVE: u64 = 0x51A1_10C8_B10C_A11E;
    const MAGIC_FREE: u64 = 0xF4EE_D0B1_0C00_DEAD;
    const CANARY: u64 = 0xC0DE_CA9A_27F0_0D5A;
    const HDR: usize = 48;
    const TRL: usize = 16;
    const TRL_BYTE: u8 = 0xC5;
    const POISON: u8 = 0xDE;
    const FLAG_TRACKED: u64 = 1;
    const MAX_LIVE: usize = 1 << 14;
    const QCAP: usize = 256;
    const QBYTES: usize = 16 << 20;
    const BUDGET: usize = 256 << 20;

    #[derive(Clone, Copy)]
    struct QEntry {
        base: usize,
        total: usize,
        balign: usize,
        user: usize,
        size: usize,
    }

    pub struct State {
        pub fill: u8,          // 0 zero, 1 ones, 2 a5, 3 garbage
        pub realloc_move: bool,
        pub misalign: bool,
        pub garbage: u64,
        serial: u64,
        live: [Block; MAX_LIVE],
        nlive: usize,
        quarantine: [QEntry; QCAP],
        qhead: usize,
        qlen: usize,
        qbytes: usize,
        pub violation: Option<(HeapViolation, u64)>,
        pub stats: AllocStats,
        pub overflow: bool,
    }

    pub struct Cell(pub UnsafeCell<State>);
    // SAFETY: native workers are single-threaded processes (see DESIGN §3.1).
    unsafe impl Sync for Cell {}

    pub static ST: Cell = Cell(UnsafeCell::new(State {
        fill: 0,
        realloc_move: true,
        misalign: false,
        garbage: 1,
        serial: 0,
        live: [Block { user: 0, size: 0, align: 0, serial: 0 }; MAX_LIVE],
        nlive: 0,
        quarantine: [QEntry { base: 0, total: 0, balign: 0, user: 0, size: 0 }; QCAP],
        qhead: 0,
        qlen: 0,
        qbytes: 0,
        violation: None,
        stats: AllocStats { allocs: 0, reallocs: 0, reallocs_moved: 0, reallocs_inplace: 0, frees: 0, bytes: 0, refused: 0 },
        overflow: false,
    }));

    #[inline]
    pub fn st() -> &'static mut State {
        // SAFETY: single-threaded, never re-entered (the allocator does not allocate).
        unsafe { &mut *ST.0.get() }
    }

    impl State {
        fn note(&mut self, v: HeapViolation, serial: u64) {
            if self.violation.is_none() {
                self.violation = Some((v, serial));
            }
        }

        unsafe fn fill_fresh(&mut self, p: *mut u8, n: usize) {
            match self.fill {
                0 => std::ptr::write_bytes(p, 0, n),
                1 => std::ptr::write_bytes(p, 0xFF, n),
                2 => std::ptr::write_bytes(p, 0xA5, n),
                _ => {
                    let mut x = self.garbage | 1;
                    for i in 0..n {
                        x ^= x << 13;
                        x ^= x >> 7;
                        x ^= x << 17;
                        *p.add(i) = (x >> 24) as u8;
                    }
                    self.garbage = x;
                }
            }
        }

        pub unsafe fn alloc(&mut self, layout: Layout, tracked: bool, zeroed: bool) -> *mut u8 {
            let align = layout.align();
            let size = layout.size();
            if tracked && size > BUDGET {
                // the simulated machine is finite: an absurd request is refused like a real allocator would
                self.stats.refused += 1;
                return std::ptr::null_mut();
            }
            let balign = align.max(64);
            let mis = if self.misalign && tracked && align < 32 { align } else { 0 };
            let off = balign + mis;
            let total = off + size + TRL;
            let base = System.alloc(Layout::from_size_align_unchecked(total, balign));
            if base.is_null() {
                return base;
            }
            let user = base.add(off);
            self.serial += 1;
            let serial = self.serial;
            let flags = if tracked { FLAG_TRACKED } else { 0 };
            let meta = ((off as u64) << 32) | ((align as u64) << 8) | flags;
            let h = user.sub(HDR) as *mut u64;
            h.write(MAGIC_LIVE);
            h.add(1).write(size as u64);
            h.add(2).write(meta);
            h.add(3).write(total as u64);
            h.add(4).write(serial);
            h.add(5).write(CANARY ^ (size as u64) ^ meta);
            std::ptr::write_bytes(user.add(size), TRL_BYTE, TRL);
            if zeroed {
                std::ptr::write_bytes(user, 0, size);
            } else if tracked {
                self.fill_fresh(user, size);
            }
            if tracked {
                self.stats.allocs += 1;
                self.stats.bytes += size as u64;
                if self.nlive < MAX_LIVE {
                    self.live[self.nlive] = Block { user: user as usize, size, align, serial };
                    self.nlive += 1;
                } else {
                    self.overflow = true;
                }
            }
            user
        }

        /// Validate the header of a pointer handed to dealloc/realloc. Returns (size, meta) if live.
        unsafe fn validate(&mut self, ptr: *mut u8, layout: Layout) -> Option<(usize, u64)> {
            if (ptr as usize) < 4096 {
                // null (or near-null) handed to dealloc/realloc
                self.note(HeapViolation::InvalidFree, 0);
                return None;
            }
            let h = ptr.sub(HDR) as *mut u64;
            let magic = h.read();
            if magic == MAGIC_FREE {
                self.note(HeapViolation::DoubleFree, 0);
                return None;
            }
            if magic != MAGIC_LIVE {
                self.note(HeapViolation::InvalidFree, 0);
                return None;
            }
            let size = h.add(1).read() as usize;
            let meta = h.add(2).read();
            let serial = self.find(ptr as usize).map(|b| b.serial).unwrap_or(0);
            if h.add(5).read() != CANARY ^ (size as u64) ^ meta {
                self.note(HeapViolation::CanaryHead, serial);
            }
            let align = ((meta >> 8) & 0xFF_FFFF) as usize;
            if size != layout.size() || align != layout.align() {
                self.note(HeapViolation::MismatchedFree, serial);
                // keep going with the true size so that our own bookkeeping stays sound
            }
            let tail = ptr.add(size);
            for i in 0..TRL {
                if *tail.add(i) != TRL_BYTE {
                    self.note(HeapViolation::CanaryTail, serial);
                    break;
                }
            }
            Some((size, meta))
        }

        pub fn find(&self, user: usize) -> Option<Block> {
            self.live[..self.nlive].iter().copied().find(|b| b.user == user)
        }

        fn unregister(&mut self, user: usize) {
            if let Some(i) = self.live[..self.nlive].iter().position(|b| b.user == user) {
                self.nlive -= 1;
                self.live[i] = self.live[self.nlive];
            }
        }

        pub unsafe fn dealloc(&mut self, ptr: *mut u8, layout: Layout) {
            let Some((size, meta)) = self.validate(ptr, layout) else { return };
            let off = (meta >> 32) as usize;
            let align = ((meta >> 8) & 0xFF_FFFF) as usize;
            let balign = align.max(64);
            let base = ptr.sub(off);
            let total = (ptr.sub(HDR) as *mut u64).add(3).read() as usize;
            if meta & FLAG_TRACKED != 0 {
                self.stats.frees += 1;
                self.unregister(ptr as usize);
                (ptr.sub(HDR) as *mut u64).write(MAGIC_FREE);
                std::ptr::write_bytes(ptr, POISON, size);
                self.quarantine_push(QEntry { base: base as usize, total, balign, user: ptr as usize, size });
            } else {
                (ptr.sub(HDR) as *mut u64).write(0);
                System.dealloc(base, Layout::from_size_align_unchecked(total, balign));
            }
        }

        unsafe fn quarantine_push(&mut self, e: QEntry) {
            while self.qlen == QCAP || (self.qlen > 0 && self.qbytes + e.total > QBYTES) {
                self.quarantine_pop();
            }
            let idx = (self.qhead + self.qlen) % QCAP;
            self.quarantine[idx] = e;
            self.qlen += 1;
            self.qbytes += e.total;
        }

        unsafe fn quarantine_pop(&mut self) {
            let e = self.quarantine[self.qhead];
            self.qhead = (self.qhead + 1) % QCAP;
            self.qlen -= 1;
            self.qbytes -= e.total;
            let p = e.user as *const u8;
            for i in 0..e.size {
                if *p.add(i) != POISON {
                    self.note(HeapViolation::WriteAfterFree, 0);
                    break;
                }
            }
            System.dealloc(e.base as *mut u8, Layout::from_size_align_unchecked(e.total, e.balign));
        }

        pub unsafe fn flush_quarantine(&mut self) {
            while self.qlen > 0 {
                self.quarantine_pop();
            }
        }

        pub unsafe fn realloc(&mut self, ptr: *mut u8, layout: Layout, new_size: usize) -> *mut u8 {
            if (ptr as usize) < 4096 {
                self.note(HeapViolation::InvalidFree, 0);
                return self.alloc(Layout::from_size_align_unchecked(new_size, layout.align()), tracking(), false);
            }
            let h = ptr.sub(HDR) as *mut u64;
            let magic = h.read();
            if magic != MAGIC_LIVE {
                self.note(if magic == MAGIC_FREE { HeapViolation::DoubleFree } else { HeapViolation::InvalidFree }, 0);
                // cannot continue sensibly: hand out a fresh block so the caller has valid memory
                return self.alloc(Layout::from_size_align_unchecked(new_size, layout.align()), tracking(), false);
            }
            let size = h.add(1).read() as usize;
            let meta = h.add(2).read();
            let tracked = meta & FLAG_TRACKED != 0;
            if tracked {
                self.stats.reallocs += 1;
            }
            if tracked && !self.realloc_move && new_size <= size && size == layout.size() {
                // shrink in place
                self.stats.reallocs_inplace += 1;
                h.add(1).write(new_size as u64);
                h.add(5).write(CANARY ^ (new_size as u64) ^ meta);
                // the System block keeps its original extent (header word 3); the released tail is poisoned
                std::ptr::write_bytes(ptr.add(new_size), TRL_BYTE, TRL);
                if size - new_size > TRL {
                    std::ptr::write_bytes(ptr.add(new_size + TRL), POISON, size - new_size - TRL);
                }
                if let Some(i) = self.live[..self.nlive].iter().position(|b| b.user == ptr as usize) {
                    self.live[i].size = new_size;
                }
                return ptr;
            }
            if tracked {
                self.stats.reallocs_moved += 1;
            }
            let new = self.alloc(
                Layout::from_size_align_unchecked(new_size, layout.align()),
                tracked || tracking(),
                false,
            );
            if new.is_null() {
                return new;
            }
            std::ptr::copy_nonoverlapping(ptr, new, size.min(new_size));
            self.dealloc(ptr, layout);
            new
        }

        pub fn check_canaries(&mut self) {
            for i in 0..self.nlive {
                let b = self.live[i];
                // SAFETY: live blocks are owned by us
                unsafe {
                    let p = b.user as *mut u8;
                    let h = p.sub(HDR) as *mut u64;
                    let size = h.add(1).read();
                    let meta = h.add(2).read();
                    if h.read() != MAGIC_LIVE || h.add(5).read() != CANARY ^ size ^ meta {
                        self.note(HeapViolation::CanaryHead, b.serial);
                    }
                    let tail = p.add(b.size);
                    for j in 0..TRL {
                        if *tail.add(j) != TRL_BYTE {
                            self.note(HeapViolation::CanaryTail, b.serial);
                            break;
                        }
                    }
                }
            }
        }

        pub fn live(&self) -> &[Block] {
            &self.live[..self.nlive]
        }

        pub fn forget_all(&mut self) {
            self.nlive = 0;
        }
    }
}

/// Native workers are single-threaded, except for the reader-thread scenario (F7), which only reads shared
/// values but does allocate its own results: a spin lock keeps the allocator's bookkeeping sound there.
#[cfg(not(miri))]
static LOCK: AtomicBool = AtomicBool::new(false);
#[cfg(not(miri))]
struct Guard;
#[cfg(not(miri))]
impl Guard {
    #[inline]
    fn take() -> Guard {
        while LOCK.compare_exchange_weak(false, true, std::sync::atomic::Ordering::Acquire, Relaxed).is_err() {
            std::hint::spin_loop();
        }
        Guard
    }
}
#[cfg(not(miri))]
impl Drop for Guard {
    #[inline]
    fn drop(&mut self) {
        LOCK.store(false, std::sync::atomic::Ordering::Release);
    }
}

#[cfg(not(miri))]
/// the simulated machine is finite whether or not the run is being tracked: an absurd request from one of dashu's
/// fallible allocation sites is refused (otherwise the real allocator would hand out gigabytes to be filled)
#[cfg(not(miri))]
const NATIVE_BUDGET: usize = 256 << 20;

#[cfg(not(miri))]
fn over_budget(size: usize) -> bool {
    size > NATIVE_BUDGET && dashu_int::verif::in_fallible_site()
}

#[cfg(not(miri))]
unsafe impl GlobalAlloc for SimAlloc {
    unsafe fn alloc(&self, layout: Layout) -> *mut u8 {
        if should_fail() || over_budget(layout.size()) {
            return std::ptr::null_mut();
        }
        let _g = Guard::take();
        native::st().alloc(layout, tracking(), false)
    }
    unsafe fn alloc_zeroed(&self, layout: Layout) -> *mut u8 {
        if should_fail() || over_budget(layout.size()) {
            return std::ptr::null_mut();
        }
        let _g = Guard::take();
        native::st().alloc(layout, tracking(), true)
    }
    unsafe fn dealloc(&self, ptr: *mut u8, layout: Layout) {
        let _g = Guard::take();
        native::st().dealloc(ptr, layout)
    }
    unsafe fn realloc(&self, ptr: *mut u8, layout: Layout, new_size: usize) -> *mut u8 {
        if should_fail() || over_budget(new_size) {
            return std::ptr::null_mut();
        }
        let _g = Guard::take();
        native::st().realloc(ptr, layout, new_size)
    }
}

/// under Miri the simulated machine is small: big requests are refused (interpreting them would take forever)
#[cfg(miri)]
const MIRI_BUDGET: usize = 1 << 20;

#[cfg(miri)]
unsafe impl GlobalAlloc for SimAlloc {
    unsafe fn alloc(&self, layout: Layout) -> *mut u8 {
        if should_fail() || (dashu_int::verif::in_fallible_site() && layout.size() > MIRI_BUDGET) {
            return std::ptr::null_mut();
        }
        System.alloc(layout)
    }
    unsafe fn alloc_zeroed(&self, layout: Layout) -> *mut u8 {
        if should_fail() || (dashu_int::verif::in_fallible_site() && layout.size() > MIRI_BUDGET) {
            return std::ptr::null_mut();
        }
        System.alloc_zeroed(layout)
    }
    unsafe fn dealloc(&self, ptr: *mut u8, layout: Layout) {
        System.dealloc(ptr, layout)
    }
    unsafe fn realloc(&self, ptr: *mut u8, layout: Layout, new_size: usize) -> *mut u8 {
        if should_fail() || (dashu_int::verif::in_fallible_site() && new_size > MIRI_BUDGET) {
            return std::ptr::null_mut();
        }
        System.realloc(ptr, layout, new_size)
    }
}

// ---------------- public facade (no-ops under Miri) ----------------

#[derive(Clone, Copy, Debug, PartialEq, Eq)]
pub struct RunCfg {
    pub fill: u8,
    pub realloc_move: bool,
    pub misalign: bool,
}

#[cfg(not(miri))]
pub fn begin_run(cfg: RunCfg, garbage_seed: u64) {
    let s = native::st();
    s.fill = cfg.fill;
    s.realloc_move = cfg.realloc_move;
    s.misalign = cfg.misalign;
    s.garbage = garbage_seed | 1;
    s.violation = None;
    s.stats = AllocStats::default();
    s.overflow = false;
    s.forget_all();
    reset_event_counters();
    disarm_fault();
}
#[cfg(miri)]
pub fn begin_run(_cfg: RunCfg, _garbage_seed: u64) {
    reset_event_counters();
    disarm_fault();
}

/// Ends a run: returns the number of tracked blocks still live (leaks), clears them, flushes the quarantine.
#[cfg(not(miri))]
pub fn end_run() -> usize {
    let s = native::st();
    let n = s.live().len();
    s.forget_all();
    // SAFETY: quarantined blocks are owned by the allocator
    unsafe { s.flush_quarantine() };
    n
}
#[cfg(miri)]
pub fn end_run() -> usize {
    0
}

#[cfg(not(miri))]
pub fn take_violation() -> Option<(HeapViolation, u64)> {
    native::st().violation.take()
}
#[cfg(miri)]
pub fn take_violation() -> Option<(HeapViolation, u64)> {
    None
}

#[cfg(not(miri))]
pub fn check_canaries() {
    native::st().check_canaries()
}
#[cfg(miri)]
pub fn check_canaries() {}

#[cfg(not(miri))]
pub fn find_block(user: usize) -> Option<Block> {
    native::st().find(user)
}
#[cfg(miri)]
pub fn find_block(_user: usize) -> Option<Block> {
    None
}

#[cfg(not(miri))]
pub fn live_blocks() -> &'static [Block] {
    native::st().live()
}
#[cfg(miri)]
pub fn live_blocks() -> &'static [Block] {
    &[]
}

#[cfg(not(miri))]
pub fn stats() -> AllocStats {
    native::st().stats
}
#[cfg(miri)]
pub fn stats() -> AllocStats {
    AllocStats::default()
}

#[cfg(not(miri))]
pub fn overflowed() -> bool {
    native::st().overflow
}
#[cfg(miri)]
pub fn overflowed() -> bool {
    false
}

pub const HAS_REGISTRY: bool = cfg!(not(miri));

/// Start-up self test of the trusted base: a planted double free, mismatched free and overrun in
/// harness-owned memory must be caught, and must not take the process down.
#[cfg(not(miri))]
pub fn self_test() {
    use std::alloc::{alloc, dealloc};
    begin_run(RunCfg { fill: 2, realloc_move: true, misalign: true }, 7);
    let l = Layout::from_size_align(64, 8).unwrap();
    // SAFETY: exercising the allocator's own checks on memory we own
    unsafe {
        let old = track(true);
        let p = std::hint::black_box(alloc(l));
        assert!(!p.is_null() && (p as usize) % 16 == 8, "misalign policy");
        assert_eq!(std::ptr::read_volatile(p), 0xA5, "fill pattern");
        assert_eq!(live_blocks().len(), 1);
        assert!(find_block(p as usize).is_some());
        dealloc(p, l);
        assert!(take_violation().is_none());
        assert_eq!(live_blocks().len(), 0);
        dealloc(p, l);
        assert_eq!(take_violation().map(|v| v.0), Some(HeapViolation::DoubleFree));
        // (black_box: LLVM may otherwise elide an alloc/dealloc pair altogether)
        let q = std::hint::black_box(alloc(l));
        dealloc(q, Layout::from_size_align(72, 8).unwrap());
        assert_eq!(take_violation().map(|v| v.0), Some(HeapViolation::MismatchedFree));
        let r = std::hint::black_box(alloc(l));
        std::ptr::write_volatile(r.add(64), 0);
        check_canaries();
        assert_eq!(take_violation().map(|v| v.0), Some(HeapViolation::CanaryTail));
        std::ptr::write_volatile(r.add(64), 0xC5);
        dealloc(r, l);
        assert!(take_violation().is_none());
        // write after free is found when the quarantine is flushed
        let w = std::hint::black_box(alloc(l));
        dealloc(w, l);
        std::ptr::write_volatile(w.add(3), 1);
        track(old);
        assert_eq!(end_run(), 0);
        assert_eq!(take_violation().map(|v| v.0), Some(HeapViolation::WriteAfterFree));
    }
}
#[cfg(miri)]
pub fn self_test() {}
