//! F7: reader threads. `unsafe impl Sync for Repr/Buffer` claims that shared `&UBig` (including statics built
//! by `static_ubig!`, whose Repr holds a `*mut Word` cast from a `*const`) is never written through.
//! Three threads share values built by a seeded history plus the static bank and execute seeded lists of
//! by-reference operations; owned results travel to another thread and are dropped there (`Send`).
//! Under Miri the scheduler (seeded, pre-emptive) decides the interleaving and the data-race detector is the
//! oracle; in every mode each thread's result digests must equal those of the same list run alone.

use crate::gen;
use crate::prng::{run_seed, Rng};
use crate::statics;
use crate::view::*;
use crate::world::*;
use dashu_base::{BitTest, Gcd};
use dashu_int::{IBig, UBig};
use std::hash::{Hash, Hasher};
use std::sync::{mpsc, Arc};

#[derive(Clone, Copy)]
struct ROp {
    kind: u8,
    a: u8,
    b: u8,
    n: u16,
}

struct Shared {
    u: Vec<UBig>,
    i: Vec<IBig>,
    f: Vec<FBin>,
    r: Vec<dashu_ratio::RBig>,
}

/// shared operands: the pool (half of the time), the static bank, or heap copies of the statics
fn uval<'a>(sh: &'a Shared, k: u8) -> &'a UBig {
    let bank = statics::ubank();
    let j = (k >> 1) as usize;
    if k & 1 == 0 {
        &sh.u[j % sh.u.len()]
    } else {
        bank[j % bank.len()]
    }
}
fn ival<'a>(sh: &'a Shared, k: u8) -> &'a IBig {
    let bank = statics::ibank();
    let j = (k >> 1) as usize;
    if k & 1 == 0 {
        &sh.i[j % sh.i.len()]
    } else {
        bank[j % bank.len()]
    }
}

/// executes one read-only operation; returns a digest and optionally an owned value to hand to another thread
fn run_rop(sh: &Shared, op: ROp) -> (u64, Option<UBig>) {
    let mut d = Dig::new();
    let (x, y) = (uval(sh, op.a), uval(sh, op.b));
    let (p, q) = (ival(sh, op.a), ival(sh, op.b));
    let mut give = None;
    match op.kind % 34 {
        26 => {
            // by-reference subtraction in both orders (one of them is the larger), squaring, small powers
            let r = if x >= y { x - y } else { y - x };
            dig_ubig(&mut d, &r);
            let r = x.sqr();
            dig_ubig(&mut d, &r);
            if x.bit_len() < 1200 {
                let r = x.pow(2 + op.n as usize % 3);
                dig_ubig(&mut d, &r);
            }
        }
        27 => {
            for c in x.to_chunks(1 + op.n as usize % 130).iter() {
                dig_ubig(&mut d, c);
            }
            for w0 in x.as_words() {
                d.u64(*w0 as u64);
            }
            let (sg, ws) = p.as_sign_words();
            d.u64(sg as u64);
            d.u64(ws.len() as u64);
        }
        28 => {
            d.bytes(format!("{}", x.in_radix(2 + op.n as u32 % 35)).as_bytes());
            d.bytes(format!("{:#b}", y).as_bytes());
            d.bytes(format!("{:?}", p).as_bytes());
        }
        29 => {
            if !(x.is_zero() && y.is_zero()) {
                let (g, s, t) = dashu_base::ExtendedGcd::gcd_ext(x, y);
                dig_ubig(&mut d, &g);
                dig_ibig(&mut d, &s);
                dig_ibig(&mut d, &t);
            }
            if !(p.is_zero() && q.is_zero()) {
                let g = dashu_base::Gcd::gcd(p, q);
                dig_ubig(&mut d, &g);
            }
        }
        30 => {
            if !q.is_zero() {
                let (a2, b2) = dashu_base::DivRemEuclid::div_rem_euclid(p, q);
                dig_ibig(&mut d, &a2);
                dig_ubig(&mut d, &b2);
                let r = p / q;
                dig_ibig(&mut d, &r);
            }
        }
        31 => {
            // the same shared value on both sides of an arithmetic operator
            let r = x * x;
            dig_ubig(&mut d, &r);
            let r = p + p;
            dig_ibig(&mut d, &r);
            let r = x & x;
            dig_ubig(&mut d, &r);
            d.u64((p - p).is_zero() as u64);
        }
        32 => {
            if !y.is_zero() {
                let ring = dashu_int::fast_div::ConstDivisor::new(y.clone());
                let e = ring.reduce(x.clone());
                dig_ubig(&mut d, &e.residue());
                let r = x % &ring;
                dig_ubig(&mut d, &r);
            }
        }
        33 => {
            let r = dashu_base::CubicRoot::cbrt(x);
            dig_ubig(&mut d, &r);
            let r = x.nth_root(2 + op.n as usize % 4);
            dig_ubig(&mut d, &r);
            d.u64(x.trailing_ones().unwrap_or(0) as u64);
            d.u64(dashu_base::Signed::is_negative(p) as u64);
        }
        16 => {
            d.i64(p.cmp(q) as i64);
            d.u64((p == q) as u64);
        }
        17 => {
            d.bytes(&p.to_le_bytes());
            d.bytes(&q.to_be_bytes());
        }
        18 => d.bytes(&x.to_be_bytes()),
        19 => {
            let r = x | y;
            dig_ubig(&mut d, &r);
            let r = p ^ q;
            dig_ibig(&mut d, &r);
        }
        20 => {
            let r = p >> (op.n as usize % 300);
            dig_ibig(&mut d, &r);
            let r = x << (op.n as usize % 70);
            dig_ubig(&mut d, &r);
        }
        21 => {
            if !y.is_zero() {
                let (q2, r2) = dashu_base::DivRem::div_rem(x, y);
                dig_ubig(&mut d, &q2);
                dig_ubig(&mut d, &r2);
            }
        }
        22 => {
            let r = dashu_base::SquareRoot::sqrt(x);
            dig_ubig(&mut d, &r);
            d.u64(x.count_ones() as u64);
            d.u64(x.trailing_zeros().unwrap_or(0) as u64);
        }
        23 => {
            d.u64(x.to_f64().value().to_bits());
            d.u64(p.to_f32().value().to_bits() as u64);
            d.bytes(format!("{}", p.in_radix(7 + op.n as u32 % 29)).as_bytes());
        }
        24 => {
            // the same static (or pool value) on both sides, and against a heap copy of itself
            d.i64(x.cmp(x) as i64);
            let c = y.clone();
            d.i64(y.cmp(&c) as i64);
            d.i64(q.cmp(&q.clone()) as i64);
        }
        25 => {
            let mut c = x.clone();
            c.clone_from(y);
            dig_ubig(&mut d, &c);
            give = Some(c);
        }
        0 => {
            let r = x + y;
            dig_ubig(&mut d, &r);
            give = Some(r);
        }
        1 => {
            let r = x * y;
            dig_ubig(&mut d, &r);
        }
        2 => {
            let r = p - q;
            dig_ibig(&mut d, &r);
        }
        3 => {
            let c = x.clone();
            dig_ubig(&mut d, &c);
            give = Some(c);
        }
        4 => d.i64(x.cmp(y) as i64),
        5 => {
            let mut h = std::collections::hash_map::DefaultHasher::new();
            p.hash(&mut h);
            d.u64(h.finish());
        }
        6 => d.bytes(x.to_string().as_bytes()),
        7 => d.bytes(format!("{:x}", p).as_bytes()),
        8 => {
            let r = x >> (op.n as usize % 200);
            dig_ubig(&mut d, &r);
        }
        9 => {
            let r = p & q;
            dig_ibig(&mut d, &r);
        }
        10 => {
            if !y.is_zero() {
                let r = x % y;
                dig_ubig(&mut d, &r);
            }
        }
        11 => d.bytes(&x.to_le_bytes()),
        12 => {
            if !(x.is_zero() && y.is_zero()) {
                let r = x.gcd(y);
                dig_ubig(&mut d, &r);
            }
        }
        13 => {
            d.u64(x.bit_len() as u64);
            d.u64(p.bit(op.n as usize % 300) as u64);
            d.u64((x == y) as u64);
        }
        14 => {
            let f = &sh.f[op.a as usize % sh.f.len()];
            let g = &sh.f[op.b as usize % sh.f.len()];
            d.i64(f.cmp(g) as i64);
            dig_fbig(&mut d, &f.clone());
        }
        _ => {
            let r = &sh.r[op.a as usize % sh.r.len()];
            let s = &sh.r[op.b as usize % sh.r.len()];
            d.u64((r == s) as u64);
            dig_rbig(&mut d, &(r + s));
        }
    }
    (d.0, give)
}

pub struct F7Result {
    pub mismatch: Option<String>,
    pub ops: usize,
}

pub fn run_f7(seed: u64, index: u64) -> F7Result {
    let rs = run_seed(seed, "F7", index);
    let mut rng = Rng::new(rs);
    // shared values come out of a short seeded history (arbitrary hidden state)
    let sw = gen::Swarm::draw(&mut rng);
    let hlen = 4 + rng.below(8) as usize;
    let ops = gen::gen_history(&mut rng, &sw, hlen, 0);
    let mut w = World::new();
    let mut env = Env::new(false);
    crate::run::QUIET.store(true, std::sync::atomic::Ordering::Relaxed);
    for op in &ops {
        env.reset();
        let r = std::panic::catch_unwind(std::panic::AssertUnwindSafe(|| exec(&mut w, op, &mut env)));
        if r.is_err() {
            let _ = crate::run::take_panic();
        }
        w.cap();
    }
    crate::run::QUIET.store(false, std::sync::atomic::Ordering::Relaxed);
    let World { u, i, f, r, .. } = w;
    let sh = Arc::new(Shared { u, i, f, r });
    let nthreads = 3;
    let nops = if cfg!(miri) { 6 } else { 40 };
    let lists: Vec<Vec<ROp>> = (0..nthreads)
        .map(|_| (0..nops).map(|_| ROp { kind: rng.next() as u8, a: rng.next() as u8, b: rng.next() as u8, n: rng.next() as u16 }).collect())
        .collect();
    // reference: each list alone
    let expect: Vec<Vec<u64>> = lists.iter().map(|l| l.iter().map(|op| run_rop(&sh, *op).0).collect()).collect();
    // ring of channels: thread t sends owned values to thread t+1, which drops them
    let mut txs = Vec::new();
    let mut rxs = Vec::new();
    for _ in 0..nthreads {
        let (tx, rx) = mpsc::channel::<UBig>();
        txs.push(tx);
        rxs.push(Some(rx));
    }
    let mut handles = Vec::new();
    for t in 0..nthreads {
        let sh = sh.clone();
        let list = lists[t].clone();
        let tx = txs[(t + 1) % nthreads].clone();
        let rx = rxs[t].take().unwrap();
        handles.push(std::thread::spawn(move || {
            let mut out = Vec::with_capacity(list.len());
            for op in list {
                let (dg, give) = run_rop(&sh, op);
                out.push(dg);
                if let Some(v) = give {
                    let _ = tx.send(v);
                }
                while let Ok(v) = rx.try_recv() {
                    drop(v); // allocated by another thread
                }
            }
            drop(tx);
            out
        }));
    }
    drop(txs);
    let mut mismatch = None;
    for (t, h) in handles.into_iter().enumerate() {
        match h.join() {
            Ok(got) => {
                if got != expect[t] && mismatch.is_none() {
                    mismatch = Some(format!("thread {} computed different results when run concurrently with the others", t));
                }
            }
            Err(_) => mismatch = Some(format!("thread {} panicked", t)),
        }
    }
    F7Result { mismatch, ops: nthreads * nops }
}
