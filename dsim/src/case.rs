//! A "case" is one fully explicit simulated execution: operation list + environment configuration.
//! It is what gets generated from a seed, executed, minimised, written as a replay file and replayed.

use crate::ops::{ops_from_text, Op};
use crate::simalloc::RunCfg;
use serde_json::{json, Value};

#[derive(Clone, Debug)]
pub struct Case {
    pub property: String,
    pub seed: u64,
    pub run: u64,
    pub cfg: RunCfg,
    /// second fill pattern for the fill differential (same as cfg.fill = no differential)
    pub fill2: u8,
    pub shadow: bool,
    /// enumerate every single allocation fault of this (fault-free) history
    pub enumerate: bool,
    pub garbage_seed: u64,
    pub ops: Vec<Op>,
}

impl Case {
    pub fn to_json(&self, class: Option<&str>, detail: Option<&str>) -> Value {
        json!({
            "property": self.property,
            "class": class,
            "detail": detail,
            "seed": self.seed,
            "run": self.run,
            "config": {
                "fill": self.cfg.fill, "fill2": self.fill2, "realloc_move": self.cfg.realloc_move,
                "misalign": self.cfg.misalign, "shadow": self.shadow, "enumerate": self.enumerate,
                "garbage_seed": self.garbage_seed,
            },
            "ops": self.ops.iter().map(|o| o.to_line()).collect::<Vec<_>>(),
        })
    }

    pub fn from_json(v: &Value) -> Result<Case, String> {
        let c = &v["config"];
        let ops_text: Vec<String> = v["ops"]
            .as_array()
            .ok_or("ops missing")?
            .iter()
            .map(|x| x.as_str().unwrap_or("").to_string())
            .collect();
        let fill = c["fill"].as_u64().unwrap_or(0) as u8;
        Ok(Case {
            property: v["property"].as_str().unwrap_or("C17").to_string(),
            seed: v["seed"].as_u64().unwrap_or(0),
            run: v["run"].as_u64().unwrap_or(0),
            cfg: RunCfg {
                fill,
                realloc_move: c["realloc_move"].as_bool().unwrap_or(true),
                misalign: c["misalign"].as_bool().unwrap_or(false),
            },
            fill2: c["fill2"].as_u64().map(|x| x as u8).unwrap_or(fill),
            shadow: c["shadow"].as_bool().unwrap_or(false),
            enumerate: c["enumerate"].as_bool().unwrap_or(false),
            garbage_seed: c["garbage_seed"].as_u64().unwrap_or(1),
            ops: ops_from_text(&ops_text.join("\n"))?,
        })
    }
}

pub struct CaseResult {
    pub violation: Option<crate::run::Violation>,
    pub harness_error: Option<String>,
    pub chain: u64,
    /// executions performed for this case (fills x enumerated faults x forms ...)
    pub executions: u64,
    pub fault_points: u64,
    /// the exact case that failed (e.g. with the enumerated fault placed), if different from the input
    pub failing: Option<Case>,
    /// a violation of a class that does not invalidate the rest of the run (the run went on); reported once per batch
    pub soft: Option<crate::run::Violation>,
}

impl CaseResult {
    pub fn from_outcome(o: crate::run::Outcome) -> CaseResult {
        CaseResult { violation: o.violation, harness_error: o.harness_error, chain: o.chain, executions: 1, fault_points: 0, failing: None, soft: o.soft }
    }
}
