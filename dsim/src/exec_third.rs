//! The num-integer / num-traits trait forms of integer operations (cargo features `num-integer_v01`,
//! `num-traits_v02`, never compiled by the pinned test suite) against dashu's own forms of the same operation:
//! `u.nint` / `i.nint`, `n` selects the operation, `form` the route.

use crate::ops::Op;
use crate::world::*;
use dashu_base::{BitTest, DivEuclid, DivRem, ExtendedGcd, Gcd, RemEuclid, Sign, Signed, SquareRoot, UnsignedAbs};
use dashu_int::{IBig, UBig};
use num_integer::{Integer, Roots};
use num_traits::{Euclid, Pow, ToPrimitive};

pub fn handles(rest: &str) -> bool {
    rest == "nint"
}

/// floor division and its remainder from dashu's euclidean division (reference route)
fn floor_div_ref(a: &IBig, b: &IBig) -> (IBig, IBig) {
    // floor(a / b) = floor((-a) / (-b)): make the divisor positive, then euclidean = floor
    let (a2, b2) = if b.sign() == Sign::Negative { (-a, -b) } else { (a.clone(), b.clone()) };
    let q = DivEuclid::div_euclid(&a2, &b2);
    let r = a - b * &q;
    (q, r)
}

pub fn exec(w: &mut World, op: &Op, fam: &str, _rest: &str, env: &mut Env) {
    let (a, b, dst) = (ix(op.a), ix(op.b), ix(op.dst));
    let f = op.form & 255;
    let which = op.n.unsigned_abs() % 10;
    if fam == "u" {
        let (x, y) = (&w.u[a], &w.u[b]);
        let r: UBig = match which {
            0 => match f % 3 {
                0 => Integer::div_floor(x, y),
                1 => x / y,
                _ => DivEuclid::div_euclid(x, y),
            },
            1 => match f % 3 {
                0 => Integer::mod_floor(x, y),
                1 => x % y,
                _ => RemEuclid::rem_euclid(x, y),
            },
            2 => match f % 2 {
                0 => Integer::gcd(x, y),
                _ => Gcd::gcd(x, y),
            },
            3 => {
                if x.bit_len() + y.bit_len() > 40000 {
                    return env.skip();
                }
                match f % 2 {
                    0 => Integer::lcm(x, y),
                    _ => {
                        if x.is_zero() || y.is_zero() {
                            UBig::ZERO
                        } else {
                            x * y / Gcd::gcd(x, y)
                        }
                    }
                }
            }
            4 => {
                let (q, r) = match f % 2 {
                    0 => Integer::div_rem(x, y),
                    _ => DivRem::div_rem(x, y),
                };
                env.emit_ubig("q", &q);
                r
            }
            5 => {
                if y.is_zero() {
                    return env.skip();
                }
                let (m, e, o) = match f % 2 {
                    0 => (Integer::is_multiple_of(x, y), Integer::is_even(x), Integer::is_odd(x)),
                    _ => (if y.is_zero() { x.is_zero() } else { (x % y).is_zero() }, !x.bit(0), x.bit(0)),
                };
                env.emit_u64("mult", m as u64);
                env.emit_u64("even", e as u64);
                env.emit_u64("odd", o as u64);
                return;
            }
            6 => match f % 2 {
                0 => Roots::sqrt(x),
                _ => SquareRoot::sqrt(x),
            },
            7 => {
                let k = 1 + (op.m.unsigned_abs() as u32 % 7);
                match f % 2 {
                    0 => Roots::nth_root(x, k),
                    _ => x.nth_root(k as usize),
                }
            }
            8 => {
                let k = op.m.unsigned_abs() as usize % 6;
                if x.bit_len() * k > 40000 {
                    return env.skip();
                }
                match f % 3 {
                    0 => Pow::pow(x, k),
                    1 => Pow::pow(x.clone(), k),
                    _ => x.pow(k),
                }
            }
            _ => {
                let (p, q) = match f % 2 {
                    0 => (ToPrimitive::to_u64(x), ToPrimitive::to_i32(x)),
                    _ => (u64::try_from(x).ok(), i32::try_from(x).ok()),
                };
                env.emit_u64("u64", p.unwrap_or(0));
                env.emit_u64("u64ok", p.is_some() as u64);
                env.emit_i64("i32", q.unwrap_or(0) as i64);
                env.emit_u64("i32ok", q.is_some() as u64);
                match f % 2 {
                    0 => Euclid::rem_euclid(x, &(y + UBig::ONE)),
                    _ => RemEuclid::rem_euclid(x, &(y + UBig::ONE)),
                }
            }
        };
        w.u[dst] = r;
        env.res(Pool::U, dst);
    } else {
        let (x, y) = (&w.i[a], &w.i[b]);
        let r: IBig = match which {
            0 => match f % 2 {
                0 => Integer::div_floor(x, y),
                _ => {
                    if y.is_zero() {
                        // same documented panic as the trait form
                        x / y
                    } else {
                        floor_div_ref(x, y).0
                    }
                }
            },
            1 => match f % 2 {
                0 => Integer::mod_floor(x, y),
                _ => {
                    if y.is_zero() {
                        x % y
                    } else {
                        floor_div_ref(x, y).1
                    }
                }
            },
            2 => match f % 2 {
                0 => Integer::gcd(x, y),
                _ => IBig::from(Gcd::gcd(x, y)),
            },
            3 => {
                if x.bit_len() + y.bit_len() > 40000 {
                    return env.skip();
                }
                match f % 2 {
                    0 => Integer::lcm(x, y),
                    _ => {
                        if x.is_zero() || y.is_zero() {
                            IBig::ZERO
                        } else {
                            x * y / IBig::from(Gcd::gcd(x, y))
                        }
                    }
                }
            }
            4 => {
                let (q, r) = match f % 2 {
                    0 => Integer::div_rem(x, y),
                    _ => DivRem::div_rem(x, y),
                };
                env.emit_ibig("q", &q);
                r
            }
            5 => {
                if y.is_zero() {
                    return env.skip();
                }
                let (m, e, o) = match f % 2 {
                    0 => (Integer::is_multiple_of(x, y), Integer::is_even(x), Integer::is_odd(x)),
                    _ => (if y.is_zero() { x.is_zero() } else { (x % y).is_zero() }, !x.bit(0), x.bit(0)),
                };
                env.emit_u64("mult", m as u64);
                env.emit_u64("even", e as u64);
                env.emit_u64("odd", o as u64);
                return;
            }
            6 => {
                let e = match f % 2 {
                    0 => {
                        let g = Integer::extended_gcd(x, y);
                        (g.gcd, g.x, g.y)
                    }
                    _ => {
                        let (g, s, t) = ExtendedGcd::gcd_ext(x, y);
                        (IBig::from(g), s, t)
                    }
                };
                if env.forms_oracle {
                    // the coefficients are compared between the call forms of one build only: across word sizes they
                    // legitimately differ (listed finding of i.gcdext)
                    env.emit_ibig("s", &e.1);
                    env.emit_ibig("t", &e.2);
                }
                e.0
            }
            7 => {
                let k = 1 + 2 * (op.m.unsigned_abs() as u32 % 4);
                match f % 2 {
                    0 => Roots::nth_root(x, k),
                    _ => x.nth_root(k as usize),
                }
            }
            8 => match f % 3 {
                0 => num_traits::Signed::abs_sub(x, y),
                1 => (x - y).unsigned_abs().into(),
                _ => {
                    let d = x - y;
                    if d.sign() == Sign::Negative {
                        -d
                    } else {
                        d
                    }
                }
            },
            _ => {
                let (p, q) = match f % 2 {
                    0 => (ToPrimitive::to_u64(x), ToPrimitive::to_i32(x)),
                    _ => (u64::try_from(x).ok(), i32::try_from(x).ok()),
                };
                env.emit_u64("u64", p.unwrap_or(0));
                env.emit_u64("u64ok", p.is_some() as u64);
                env.emit_i64("i32", q.unwrap_or(0) as i64);
                env.emit_u64("i32ok", q.is_some() as u64);
                let m = IBig::from(y.clone().unsigned_abs()) + IBig::ONE;
                match f % 2 {
                    0 => Euclid::rem_euclid(x, &m),
                    _ => IBig::from(RemEuclid::rem_euclid(x, &m)),
                }
            }
        };
        w.i[dst] = r;
        env.res(Pool::I, dst);
    }
}

#[allow(dead_code)]
fn _keep(_: &dyn Fn(&IBig) -> Sign) {}
#[allow(unused_imports)]
use Signed as _S;
