//! Generators for float and rational operations.

use crate::gen::{gen_bits, gen_lit_bits, Swarm};
use crate::ops::Op;
use crate::prng::Rng;
use crate::world::NP;

fn slot(rng: &mut Rng) -> u64 {
    rng.below(NP as u64)
}
fn form(rng: &mut Rng) -> u64 {
    // 0..9: the ownership / assignment / Context forms; + 16 * m: the same under rounding mode m (float binary operators)
    let f = rng.below(10) + 16 * [0u64, 0, 0, 0, 1, 2, 3, 4, 5, 1][rng.below(10) as usize];
    if rng.chance(1, 4) {
        f | 256
    } else {
        f
    }
}

fn small_bits(rng: &mut Rng, sw: &Swarm) -> usize {
    gen_bits(rng, sw.big).min(if cfg!(miri) { 300 } else { 1500 })
}

pub fn gen_float(rng: &mut Rng, sw: &Swarm) -> Op {
    let t = if rng.chance(1, 2) { "f" } else { "d" };
    let (a, b, d) = (slot(rng), slot(rng), slot(rng));
    let nm = |s: &str| format!("{}.{}", t, s);
    if sw.macro_steps && !cfg!(miri) && !crate::gen::no_macro_steps() && rng.chance(1, 50) {
        return Op::new(&nm("big")).a(a).b(b).dst(d).n(rng.below(5) as i64).m(rng.below(1 << 20) as i64).form(rng.below(2));
    }
    match rng.below(40) {
        0..=5 => {
            let bits = small_bits(rng, sw).min(600);
            let prec = match rng.below(4) {
                0 => 0,
                1 => rng.below(12) as i64,
                _ => rng.below(300) as i64,
            };
            Op::new(&nm("lit"))
                .dst(d)
                .form(rng.below(3))
                .n(rng.range(-60, 60))
                .m(if rng.chance(1, 2) { -prec } else { prec })
                .lit(gen_lit_bits(rng, bits))
        }
        6 => {
            if rng.chance(2, 3) {
                Op::new(&nm("special")).dst(d).n(rng.below(6) as i64).m(rng.below(100) as i64)
            } else {
                Op::new(&nm("static")).dst(d).n(rng.below(5) as i64).form(rng.below(3))
            }
        }
        7..=15 => Op::new(&nm(rng.pick(&["add", "sub", "mul", "div", "rem", "add", "sub", "mul"]))).a(a).b(b).dst(d).form(form(rng)),
        16 | 17 => Op::new(&nm(rng.pick(&["addi", "subi", "muli", "divi", "addu", "subu", "mulu", "divu", "diveuclid"]))).a(a).b(b).dst(d).form(rng.below(12)),
        18 | 19 => Op::new(&nm(rng.pick(&["shl", "shr"]))).a(a).dst(d).n(rng.range(-70, 70)).form(form(rng)),
        20 => Op::new(&nm(rng.pick(&["neg", "abs", "signum"]))).a(a).dst(d).form(form(rng)),
        21 => Op::new(&nm("mulsign")).a(a).dst(d).n(rng.below(2) as i64).form(form(rng)),
        22 => Op::new(&nm(rng.pick(&["sqr", "cubic", "sqrt", "inv"]))).a(a).dst(d).form(form(rng)),
        23 => Op::new(&nm("powi")).a(a).dst(d).n(rng.range(-6, 12)).form(rng.below(2)),
        24 => Op::new(&nm(rng.pick(&["exp", "ln", "expm1", "ln1p", "powf"]))).a(a).b(b).dst(d).form(rng.below(2)),
        25 | 26 => Op::new(&nm(rng.pick(&["trunc", "floor", "ceil", "round", "fract", "splitpoint", "split"]))).a(a).dst(d).form(form(rng)),
        27 => match rng.below(4) {
            0 | 1 => Op::new(&nm(rng.pick(&["toint", "tryint"]))).a(a).dst(d),
            2 => Op::new(&nm("asint")).a(a).dst(d).form(rng.below(8)),
            _ => Op::new(if t == "f" { "f.asf" } else { "d.asint" }).a(a).dst(d).form(rng.below(4)),
        },
        28 => Op::new(&nm("fromint")).a(a).dst(d).form(rng.below(3)).n(rng.below(300) as i64),
        29 | 30 => Op::new(&nm("withprec")).a(a).dst(d).n(rng.below(400) as i64).form(form(rng)),
        31 => Op::new(&nm("ulp")).a(a).dst(d),
        32 => Op::new(&nm("intoparts")).a(a).dst(d).form(form(rng)),
        33 => Op::new(&nm("str")).a(a).dst(d).form(rng.below(4)),
        34 => {
            if rng.chance(2, 3) {
                Op::new(&nm("fmt")).a(a).form(rng.below(6))
            } else {
                Op::new(&nm("sum")).dst(d).form(rng.below(6))
            }
        }
        35 => {
            if rng.chance(2, 3) {
                Op::new(&nm("query")).a(a).b(b)
            } else {
                Op::new(&nm("tof")).a(a).form(rng.below(2))
            }
        }
        36 | 37 => {
            let name = rng.pick(&["fd.todec", "fd.tobin", "fd.rounding", "fd.viahex", "fd.viaoct", "fd.todecp", "fd.tobinp", "fd.rel16", "fd.rel9", "fd.rel4"]);
            if name.starts_with("fd.rel") {
                return Op::new(name).a(a).b(b).n(rng.below(200) as i64).m(rng.below(400) as i64);
            }
            let o = Op::new(name).a(a).dst(d);
            if name.ends_with('p') {
                // explicit target precision, mostly smaller than what the source holds
                o.n(if rng.chance(3, 4) { 1 + rng.below(24) as i64 } else { rng.below(300) as i64 })
            } else {
                o
            }
        }
        38 => Op::new(&nm("rt")).a(a).dst(d).form(rng.below(9)).n(rng.below(40) as i64),
        _ => Op::new(&nm("clonefrom")).a(a).dst(d),
    }
}

pub fn gen_ratio(rng: &mut Rng, sw: &Swarm) -> Op {
    let t = if rng.chance(3, 5) { "r" } else { "x" };
    let (a, b, d) = (slot(rng), slot(rng), slot(rng));
    let nm = |s: &str| format!("{}.{}", t, s);
    if sw.macro_steps && !cfg!(miri) && !crate::gen::no_macro_steps() && rng.chance(1, 40) {
        return Op::new("rbig.reduce").a(a).b(b).c(slot(rng)).n(rng.below(10) as i64).m(rng.below(1 << 20) as i64).form(rng.below(3));
    }
    match rng.below(40) {
        0..=5 => {
            let bits = small_bits(rng, sw);
            Op::new(&nm("lit"))
                .dst(d)
                .form(rng.below(3))
                .n(rng.below(2000) as i64)
                .m(rng.below(2) as i64)
                .lit(gen_lit_bits(rng, bits))
        }
        6 => {
            if t == "r" && rng.chance(1, 3) {
                Op::new("r.static").dst(d).n(rng.below(9) as i64).form(rng.below(3))
            } else {
                Op::new(&nm("fromparts")).a(a).b(b).dst(d).form(rng.below(2))
            }
        }
        7..=16 => Op::new(&nm(rng.pick(&["add", "sub", "mul", "div", "rem", "add", "mul"]))).a(a).b(b).dst(d).form(form(rng)),
        17 | 18 => Op::new(&nm(rng.pick(&["addi", "subi", "muli", "divi", "addu", "subu", "mulu", "divu"]))).a(a).b(b).dst(d).form(rng.below(10)),
        19 => Op::new(&nm("pow")).a(a).dst(d).n(rng.below(9) as i64),
        20 => Op::new(&nm(rng.pick(&["sqr", "cubic", "inv", "neg", "abs", "signum", "fract"]))).a(a).dst(d).form(form(rng)),
        21 => Op::new(&nm("mulsign")).a(a).dst(d).n(rng.below(2) as i64).form(form(rng)),
        22 => Op::new(&nm("round")).a(a).dst(d).form(rng.below(5)),
        23 => match rng.below(3) {
            0 => Op::new(&nm("toint")).a(a).dst(d),
            1 => Op::new(&nm("asint")).a(a).dst(d).form(rng.below(8)),
            _ => Op::new(&nm("asf")).a(a).form(rng.below(4)),
        },
        24 => {
            if rng.chance(1, 2) {
                Op::new(&nm("fromint")).a(a).dst(d).form(rng.below(2))
            } else {
                Op::new(&nm("zeroes")).a(a).b(b).c(slot(rng)).dst(d).form(rng.below(5))
            }
        }
        25 => Op::new(&nm(rng.pick(&["num", "den"]))).a(a).dst(d),
        26 => Op::new(&nm("intoparts")).a(a).dst(d).form(form(rng)),
        27 => Op::new(&nm("diveuclid")).a(a).b(b).dst(d).form(rng.below(3)),
        28 => Op::new(&nm("tofloat")).a(a).dst(d).n(rng.below(200) as i64).form(rng.below(2)),
        29 => Op::new(&nm("fromfloat")).a(a).dst(d).form(rng.below(2)),
        30 => Op::new(&nm("tof64")).a(a),
        31 => Op::new(&nm("str")).a(a).dst(d).n(rng.below(35) as i64).form(rng.below(2)),
        32 => match rng.below(2) {
            0 => Op::new(&nm("fmt")).a(a).form(rng.below(4)),
            _ => Op::new(&nm("split")).a(a).dst(d).form(rng.below(3)),
        },
        33 => Op::new(&nm("query")).a(a).b(b),
        34 => Op::new(rng.pick(&["r.relax", "r.asrelaxed", "x.canon"])).a(a).dst(d).form(form(rng)),
        35 => Op::new("r.hash").a(a).b(b),
        36 => Op::new(rng.pick(&["r.simplest", "r.nearest", "r.isint"])).a(a).b(b).dst(d).n(rng.below(3) as i64),
        37 | 38 => {
            let kb = rng.pick(&[1usize, 8, 63, 64, 65, 130]);
            Op::new(&nm("rt")).a(a).dst(d).form(rng.below(8)).lit(gen_lit_bits(rng, kb))
        }
        _ => Op::new(&nm("clonefrom")).a(a).dst(d),
    }
}
