//! Executor: FBig operations (generic over rounding mode and base).
//!
//! Floats are *producers* here: they drive the integer storage through their own in-place paths and
//! carry hidden state of their own (precision next to the value). Numeric correctness of float
//! arithmetic is not judged by this simulator.

use crate::ops::Op;
use crate::view::*;
use crate::world::*;
use dashu_base::UnsignedAbs as _UAbs;
use dashu_base::{DivEuclid as _DE, DivRemEuclid as _DRE, RemEuclid as _RE};
use dashu_base::{Abs, Approximation, BitTest, Inverse, Sign, Signed, SquareRoot};
use dashu_float::{round::mode, round::Round, Context, FBig, Repr};
use dashu_int::{IBig, UBig, Word};
use std::fmt::Write as _;

pub trait FPool<R: Round + 'static, const B: Word> {
    const P: Pool;
    fn split(&mut self) -> (&mut Vec<FBig<R, B>>, &mut Vec<IBig>, &mut Vec<UBig>);
    /// values of this pool's type living in static memory
    fn static_bank() -> &'static [&'static FBig<R, B>];
}
impl FPool<mode::Zero, 2> for World {
    const P: Pool = Pool::F;
    fn split(&mut self) -> (&mut Vec<FBin>, &mut Vec<IBig>, &mut Vec<UBig>) {
        (&mut self.f, &mut self.i, &mut self.u)
    }
    fn static_bank() -> &'static [&'static FBin] {
        crate::statics::fbank()
    }
}
impl FPool<mode::HalfAway, 10> for World {
    const P: Pool = Pool::D;
    fn split(&mut self) -> (&mut Vec<FDec>, &mut Vec<IBig>, &mut Vec<UBig>) {
        (&mut self.d, &mut self.i, &mut self.u)
    }
    fn static_bank() -> &'static [&'static FDec] {
        crate::statics::dbank()
    }
}

struct W1<'a, T> {
    p: &'a mut Vec<T>,
}

/// precision guard: float operations cost grows with precision and exponent differences
const MAX_PREC: usize = if cfg!(miri) { 120 } else { 600 };
const MAX_EXP: isize = 4000;

fn tame<R: Round, const B: Word>(x: &FBig<R, B>) -> bool {
    x.repr().is_finite()
        && x.precision() <= MAX_PREC
        && x.repr().exponent().unsigned_abs() <= MAX_EXP as usize
        && x.repr().significand().bit_len() <= 4 * MAX_PREC + 64
}

pub fn exec_f<R: Round + 'static, const B: Word>(w: &mut World, op: &Op, rest: &str, env: &mut Env)
where
    World: FPool<R, B>,
{
    let pid = <World as FPool<R, B>>::P;
    let (a, b, dst) = (ix(op.a), ix(op.b), ix(op.dst));
    let take = op.form & 256 != 0;
    let form = op.form & 255;
    let (fp, ip, up) = w.split();
    let mut ww = W1 { p: fp };
    match rest {
        "lit" => {
            let neg = op.m < 0;
            let prec = op.m.unsigned_abs() as usize % (MAX_PREC + 1);
            let sig = IBig::from_parts(if neg { Sign::Negative } else { Sign::Positive }, UBig::from_le_bytes(&op.lit));
            let exp = (op.n as isize).clamp(-MAX_EXP, MAX_EXP);
            let v = match form % 3 {
                0 => FBig::<R, B>::from_parts(sig, exp),
                1 => {
                    let f = FBig::<R, B>::from_parts(sig, exp);
                    let p = f.precision().max(prec);
                    f.with_precision(p).value()
                }
                _ => {
                    // rounded to a smaller precision on purpose
                    let f = FBig::<R, B>::from_parts(sig, exp);
                    f.with_precision(prec.max(1)).value()
                }
            };
            ww.p[dst] = v;
            env.res(pid, dst);
        }
        "special" => {
            ww.p[dst] = match op.n.unsigned_abs() % 6 {
                0 => FBig::ZERO,
                1 => FBig::ONE,
                2 => FBig::NEG_ONE,
                3 => FBig::INFINITY,
                4 => FBig::NEG_INFINITY,
                _ => FBig::<R, B>::ONE.with_precision(1 + op.m.unsigned_abs() as usize % MAX_PREC).value(),
            };
            env.res(pid, dst);
        }
        "add" | "sub" | "mul" | "div" | "rem" => {
            if !tame(&ww.p[a]) || !tame(&ww.p[b]) {
                return env.skip();
            }
            if (rest == "add" || rest == "sub")
                && (ww.p[a].precision() == 0 || ww.p[b].precision() == 0)
                && (ww.p[a].repr().exponent() - ww.p[b].repr().exponent()).abs() > 2000
            {
                return env.skip(); // exact sum of unlimited-precision operands far apart: huge
            }
            if form >= 16 {
                // the same forms under another rounding mode (values converted with with_rounding, which keeps
                // value and precision): forms 16*m + f, m = 1 Up, 2 Down, 3 HalfEven, 4 Away
                let (x, y) = (&ww.p[a], &ww.p[b]);
                let f = form % 16;
                let r: FBig<R, B> = match (form / 16) % 5 {
                    1 => binop_in_mode::<mode::Up, R, B>(x, y, rest, f),
                    2 => binop_in_mode::<mode::Down, R, B>(x, y, rest, f),
                    3 => binop_in_mode::<mode::HalfEven, R, B>(x, y, rest, f),
                    4 => binop_in_mode::<mode::Away, R, B>(x, y, rest, f),
                    _ => binop_in_mode::<mode::HalfAway, R, B>(x, y, rest, f),
                };
                ww.p[dst] = r;
                return env.res(pid, dst);
            }
            if form % 10 >= 8 {
                // the Context method at the precision the operator uses
                let ctx = Context::max(ww.p[a].context(), ww.p[b].context());
                let (x, y) = (ww.p[a].repr(), ww.p[b].repr());
                let r = match rest {
                    "add" => ctx.add(x, y),
                    "sub" => ctx.sub(x, y),
                    "mul" => ctx.mul(x, y),
                    "div" => ctx.div(x, y),
                    _ => ctx.rem(x, y),
                };
                ww.p[dst] = r.value();
                return env.res(pid, dst);
            }
            let opr = &crate::exec_ratio::OpLite { a: op.a, b: op.b, dst: op.dst, form: (form % 10) | (op.form & 256) };
            match rest {
                "add" => binop_forms!(ww, env, opr, p, pid, +, +=),
                "sub" => binop_forms!(ww, env, opr, p, pid, -, -=),
                "mul" => binop_forms!(ww, env, opr, p, pid, *, *=),
                "div" => binop_forms!(ww, env, opr, p, pid, /, /=),
                _ => binop_forms!(ww, env, opr, p, pid, %, %=),
            }
        }
        "addi" | "subi" | "muli" | "divi" => {
            // float (op) big integer on either side; reference form converts first
            if !tame(&ww.p[a]) || ip[b].bit_len() > 4 * MAX_PREC {
                return env.skip();
            }
            macro_rules! fi {
                ($tr:tt, $tra:tt) => {{
                    let x = &ww.p[a];
                    let y = &ip[b];
                    match form % 12 {
                        0 => x.clone() $tr y.clone(),
                        1 => x $tr y.clone(),
                        2 => x.clone() $tr y,
                        3 => x $tr y,
                        4 => {
                            let mut t = x.clone();
                            t $tra y.clone();
                            t
                        }
                        5 => {
                            let mut t = x.clone();
                            t $tra y;
                            t
                        }
                        6 => x $tr &FBig::<R, B>::from(y.clone()),
                        7 => {
                            // integer on the left
                            let z: FBig<R, B> = y.clone() $tr x.clone();
                            return finish_commuted(ww.p, pid, dst, z, env);
                        }
                        9 => {
                            let z: FBig<R, B> = y $tr x.clone();
                            return finish_commuted(ww.p, pid, dst, z, env);
                        }
                        10 => {
                            let z: FBig<R, B> = y.clone() $tr x;
                            return finish_commuted(ww.p, pid, dst, z, env);
                        }
                        11 => {
                            let z: FBig<R, B> = y $tr x;
                            return finish_commuted(ww.p, pid, dst, z, env);
                        }
                        _ => {
                            let z: FBig<R, B> = &FBig::<R, B>::from(y.clone()) $tr x;
                            return finish_commuted(ww.p, pid, dst, z, env);
                        }
                    }
                }};
            }
            let r = match rest {
                "addi" => fi!(+, +=),
                "subi" => fi!(-, -=),
                "muli" => fi!(*, *=),
                _ => fi!(/, /=),
            };
            ww.p[dst] = r;
            env.res(pid, dst);
        }
        "addu" | "subu" | "mulu" | "divu" => {
            // float (op) unsigned big integer on either side; reference form converts first
            if !tame(&ww.p[a]) || up[b].bit_len() > 4 * MAX_PREC {
                return env.skip();
            }
            macro_rules! fu {
                ($tr:tt, $tra:tt) => {{
                    let x = &ww.p[a];
                    let y = &up[b];
                    match form % 12 {
                        0 => x.clone() $tr y.clone(),
                        1 => x $tr y.clone(),
                        2 => x.clone() $tr y,
                        3 => x $tr y,
                        4 => {
                            let mut t = x.clone();
                            t $tra y.clone();
                            t
                        }
                        5 => {
                            let mut t = x.clone();
                            t $tra y;
                            t
                        }
                        6 => x $tr &FBig::<R, B>::from(y.clone()),
                        // integer on the left
                        7 => y.clone() $tr x.clone(),
                        8 => y $tr x.clone(),
                        9 => y.clone() $tr x,
                        10 => y $tr x,
                        _ => &FBig::<R, B>::from(y.clone()) $tr x,
                    }
                }};
            }
            let r: FBig<R, B> = match rest {
                "addu" => fu!(+, +=),
                "subu" => fu!(-, -=),
                "mulu" => fu!(*, *=),
                _ => fu!(/, /=),
            };
            ww.p[dst] = r;
            env.res(pid, dst);
        }
        "shl" | "shr" => {
            let n = (op.n as isize).clamp(-MAX_EXP, MAX_EXP);
            let left = rest == "shl";
            match form % 3 {
                0 => {
                    let x = own!(ww.p[a], take);
                    ww.p[dst] = if left { x << n } else { x >> n };
                }
                1 => {
                    let mut x = own!(ww.p[a], take);
                    if left {
                        x <<= n;
                    } else {
                        x >>= n;
                    }
                    ww.p[dst] = x;
                }
                _ => {
                    if left {
                        ww.p[a] <<= n;
                    } else {
                        ww.p[a] >>= n;
                    }
                    return env.res(pid, a);
                }
            }
            env.res(pid, dst);
        }
        "neg" => {
            ww.p[dst] = match form % 2 {
                0 => -own!(ww.p[a], take),
                _ => -&ww.p[a],
            };
            env.res(pid, dst);
        }
        "abs" => {
            ww.p[dst] = own!(ww.p[a], take).abs();
            env.res(pid, dst);
        }
        "mulsign" => {
            let s = if op.n & 1 == 1 { Sign::Negative } else { Sign::Positive };
            match form % 3 {
                0 => ww.p[dst] = own!(ww.p[a], take) * s,
                1 => ww.p[dst] = s * own!(ww.p[a], take),
                _ => {
                    ww.p[a] *= s;
                    return env.res(pid, a);
                }
            }
            env.res(pid, dst);
        }
        "sqr" | "cubic" => {
            if !tame(&ww.p[a]) {
                return env.skip();
            }
            ww.p[dst] = match (rest, form % 2) {
                ("sqr", 0) => ww.p[a].sqr(),
                ("sqr", _) => ww.p[a].context().sqr(ww.p[a].repr()).value(),
                (_, 0) => ww.p[a].cubic(),
                _ => ww.p[a].context().cubic(ww.p[a].repr()).value(),
            };
            env.res(pid, dst);
        }
        "sqrt" => {
            if !tame(&ww.p[a]) || ww.p[a].precision() == 0 || ww.p[a].repr().sign() == Sign::Negative {
                return env.skip();
            }
            ww.p[dst] = match form % 2 {
                0 => ww.p[a].sqrt(),
                _ => ww.p[a].context().sqrt(ww.p[a].repr()).value(),
            };
            env.res(pid, dst);
        }
        "inv" => {
            if !tame(&ww.p[a]) || ww.p[a].precision() == 0 {
                return env.skip();
            }
            ww.p[dst] = match form % 3 {
                0 => own!(ww.p[a], take).inv(),
                1 => (&ww.p[a]).inv(),
                _ => ww.p[a].context().inv(ww.p[a].repr()).value(),
            };
            env.res(pid, dst);
        }
        "powi" => {
            let x = &ww.p[a];
            let e = op.n.clamp(-40, 40);
            if !tame(x) || x.precision() == 0 || x.repr().exponent().unsigned_abs() > 200 {
                return env.skip();
            }
            ww.p[dst] = match form % 2 {
                0 => x.powi(IBig::from(e)),
                _ => x.context().powi(x.repr(), IBig::from(e)).value(),
            };
            env.res(pid, dst);
        }
        "exp" | "ln" | "expm1" | "ln1p" => {
            let x = &ww.p[a];
            // keep arguments in the documented domain and moderate in size (termination is not this check's topic)
            // (integer arithmetic only: the harness must not depend on the float environment)
            let bits_per_digit: isize = (Word::BITS - (B - 1).leading_zeros()) as isize;
            let small = x.repr().significand().bit_len() as isize + x.repr().exponent() * bits_per_digit <= 6;
            if !tame(x) || x.precision() == 0 || x.precision() > 200 || !small {
                return env.skip();
            }
            let pos = x.repr().sign() == Sign::Positive && !x.repr().is_zero();
            let via_context = form % 2 == 1;
            let ctx = x.context();
            let r = match rest {
                "exp" if via_context => ctx.exp(x.repr()).value(),
                "exp" => x.exp(),
                "expm1" if via_context => ctx.exp_m1(x.repr()).value(),
                "expm1" => x.exp_m1(),
                "ln" => {
                    if !pos {
                        return env.skip();
                    }
                    if via_context {
                        ctx.ln(x.repr()).value()
                    } else {
                        x.ln()
                    }
                }
                _ => {
                    // ln_1p domain: x > -1
                    if x.repr().sign() == Sign::Negative {
                        return env.skip();
                    }
                    if via_context {
                        ctx.ln_1p(x.repr()).value()
                    } else {
                        x.ln_1p()
                    }
                }
            };
            ww.p[dst] = r;
            env.res(pid, dst);
        }
        "trunc" | "floor" | "ceil" | "round" | "fract" => {
            let x = &ww.p[a];
            if !tame(x) {
                return env.skip();
            }
            ww.p[dst] = match rest {
                "trunc" => x.trunc(),
                "floor" => x.floor(),
                "ceil" => x.ceil(),
                "round" => x.round(),
                _ => x.fract(),
            };
            env.res(pid, dst);
        }
        "diveuclid" => {
            // euclidean division of floats: quotient (IBig) -> I[dst], remainder -> pool[dst]
            let (x, y) = (&ww.p[a], &ww.p[b]);
            if !tame(x) || !tame(y) || (x.repr().exponent() - y.repr().exponent()).unsigned_abs() > 2000 {
                return env.skip();
            }
            let (q, r): (IBig, FBig<R, B>) = match form % 8 {
                0 => x.clone().div_rem_euclid(y.clone()),
                1 => x.clone().div_rem_euclid(y),
                2 => x.div_rem_euclid(y.clone()),
                3 => x.div_rem_euclid(y),
                4 => (x.clone().div_euclid(y.clone()), x.clone().rem_euclid(y.clone())),
                5 => (x.clone().div_euclid(y), x.clone().rem_euclid(y)),
                6 => (x.div_euclid(y.clone()), x.rem_euclid(y.clone())),
                _ => (x.div_euclid(y), x.rem_euclid(y)),
            };
            ip[dst] = q;
            ww.p[dst] = r;
            env.res(Pool::I, dst);
            env.res(pid, dst);
        }
        "split" => {
            // documented as equivalent: split_at_point() and (trunc(), fract())
            let x = &ww.p[a];
            if !tame(x) {
                return env.skip();
            }
            let d2 = (dst + 1) % NP;
            let (t, f) = match form % 2 {
                0 => x.clone().split_at_point(),
                _ => (x.trunc(), x.fract()),
            };
            ww.p[dst] = t;
            ww.p[d2] = f;
            env.res(pid, dst);
            env.res(pid, d2);
        }
        "powf" => {
            let (x, y) = (&ww.p[a], &ww.p[b]);
            let bits_per_digit: isize = (Word::BITS - (B - 1).leading_zeros()) as isize;
            let mag = |v: &FBig<R, B>| v.repr().significand().bit_len() as isize + v.repr().exponent() * bits_per_digit;
            if !tame(x) || !tame(y) || x.precision() == 0 || y.precision() == 0 || x.precision() > 120 || y.precision() > 120 {
                return env.skip();
            }
            if x.repr().sign() != Sign::Positive || x.repr().is_zero() || mag(x).abs() > 8 || mag(y) > 5 || mag(y) < -200 {
                return env.skip();
            }
            ww.p[dst] = match form % 2 {
                0 => x.powf(y),
                _ => Context::max(x.context(), y.context()).powf(x.repr(), y.repr()).value(),
            };
            env.res(pid, dst);
        }
        "sum" => {
            // Sum / Product over the pool: borrowed iterator, owned iterator, explicit fold
            if ww.p.iter().any(|v| !tame(v) || v.repr().exponent().unsigned_abs() > 500) {
                return env.skip();
            }
            let r: FBig<R, B> = match form % 6 {
                0 => ww.p.iter().sum(),
                1 => ww.p.iter().product(),
                2 => {
                    let items: Vec<FBig<R, B>> = ww.p.iter().cloned().collect();
                    items.into_iter().sum()
                }
                3 => {
                    let items: Vec<FBig<R, B>> = ww.p.iter().cloned().collect();
                    items.into_iter().product()
                }
                4 => ww.p.iter().fold(FBig::<R, B>::ZERO, |acc, v| acc + v),
                _ => ww.p.iter().fold(FBig::<R, B>::ONE, |acc, v| acc * v),
            };
            ww.p[dst] = r;
            env.res(pid, dst);
        }
        "big" => {
            // float arithmetic at precisions of thousands of digits (the integer routines behind it switch algorithms by
            // word count): operator / Context forms, only a digest of the significand enters the pool
            if cfg!(miri) {
                return env.skip();
            }
            let sz = op.m.unsigned_abs() as usize;
            let wide = |seed: &IBig, bits: usize| -> IBig {
                let pat = (seed.clone().unsigned_abs() & UBig::ones(bits.min(4096))) | UBig::ONE;
                let step = pat.bit_len() + (bits % 3);
                let mut v = pat.clone();
                while v.bit_len() < bits {
                    v = (&v << step) ^ &pat;
                }
                IBig::from_parts(seed.sign(), (v & UBig::ones(bits - 1)) | (UBig::ONE << (bits - 1)))
            };
            let digits_to_bits = |d: usize| if B == 2 { d } else { d * 10 / 3 };
            let prec = [2000usize, 4200, 6500, 9000][sz % 4];
            let (px, py) = (prec, prec - (sz / 4) % (prec / 2));
            let x: FBig<R, B> = FBig::from_parts(wide(&ip[a], digits_to_bits(px) - 3), -((sz % 700) as isize)).with_precision(px).value();
            let y: FBig<R, B> = FBig::from_parts(wide(&ip[b], digits_to_bits(py) - 3), (sz % 90) as isize - 45).with_precision(py).value();
            let ctx = Context::max(x.context(), y.context());
            let r: FBig<R, B> = match (op.n.unsigned_abs() % 5, form % 2) {
                (0, 0) => &x * &y,
                (0, _) => ctx.mul(x.repr(), y.repr()).value(),
                (1, 0) => &x / &y,
                (1, _) => ctx.div(x.repr(), y.repr()).value(),
                (2, 0) => x.sqr(),
                (2, _) => ctx.sqr(x.repr()).value(),
                (3, 0) => {
                    if x.repr().sign() == Sign::Negative {
                        (-x).sqrt()
                    } else {
                        x.sqrt()
                    }
                }
                (3, _) => {
                    let ax = if x.repr().sign() == Sign::Negative { -x } else { x };
                    ax.context().sqrt(ax.repr()).value()
                }
                (_, 0) => &x + &y,
                (_, _) => ctx.add(x.repr(), y.repr()).value(),
            };
            let m_digest = (UBig::ONE << 3999) + UBig::from(0x1234567u32);
            env.emit_u64("digits", r.repr().digits() as u64);
            env.emit_i64("exp", r.repr().exponent() as i64);
            env.emit_u64("prec", r.precision() as u64);
            let (sg, mag) = r.repr().significand().clone().into_parts();
            ip[dst] = IBig::from_parts(sg, mag % m_digest);
            env.res(Pool::I, dst);
        }
        "static" => {
            // values living in static memory (static_fbig! / static_dbig!): clone, clone_from, by-reference arithmetic
            let bank = <World as FPool<R, B>>::static_bank();
            let st = bank[op.n.unsigned_abs() as usize % bank.len()];
            let s: FBig<R, B> = match form % 3 {
                0 => st.clone(),
                1 => {
                    let mut t = own!(ww.p[dst], take);
                    t.clone_from(st);
                    t
                }
                _ => st * FBig::<R, B>::ONE,
            };
            ww.p[dst] = s;
            env.res(pid, dst);
        }
        "zeroize" => {
            zeroize::Zeroize::zeroize(&mut ww.p[a]);
            env.res(pid, a);
        }
        "splitpoint" => {
            if !tame(&ww.p[a]) {
                return env.skip();
            }
            let d2 = (dst + 1) % NP;
            let (t, f) = own!(ww.p[a], take).split_at_point();
            ww.p[dst] = t;
            ww.p[d2] = f;
            env.res(pid, dst);
            env.res(pid, d2);
        }
        "toint" => {
            let x = &ww.p[a];
            if !tame(x) {
                return env.skip();
            }
            let r = x.to_int();
            env.emit_u64("exact", matches!(r, Approximation::Exact(_)) as u64);
            ip[dst] = r.value();
            env.res(Pool::I, dst);
        }
        "tryint" => {
            if !tame(&ww.p[a]) {
                return env.skip();
            }
            match IBig::try_from(ww.p[a].clone()) {
                Ok(v) => ip[dst] = v,
                Err(_) => env.emit_u64("refused", 1),
            }
            env.res(Pool::I, dst);
        }
        "fromint" => {
            ww.p[dst] = match form % 3 {
                0 => FBig::from(ip[a].clone()),
                1 => FBig::from(up[a].clone()),
                _ => {
                    let prec = 1 + op.n.unsigned_abs() as usize % MAX_PREC;
                    Context::<R>::new(prec).convert_int::<B>(ip[a].clone()).value()
                }
            };
            env.res(pid, dst);
        }
        "withprec" => {
            let prec = op.n.unsigned_abs() as usize % (MAX_PREC + 1);
            if !ww.p[a].repr().is_finite() {
                return env.skip();
            }
            let r = own!(ww.p[a], take).with_precision(prec);
            env.emit_u64("exact", matches!(r, Approximation::Exact(_)) as u64);
            ww.p[dst] = r.value();
            env.res(pid, dst);
        }
        "ulp" => {
            if !tame(&ww.p[a]) || ww.p[a].precision() == 0 {
                return env.skip();
            }
            ww.p[dst] = ww.p[a].ulp();
            env.res(pid, dst);
        }
        "signum" => {
            ww.p[dst] = ww.p[a].signum();
            env.res(pid, dst);
        }
        "rt" => {
            // re-derivation: (ideally) the same value again by another route
            let x = &ww.p[a];
            if !tame(x) {
                return env.skip();
            }
            let k = (op.n.unsigned_abs() % 40) as usize;
            let r = match form % 9 {
                0 => x.clone().with_precision(if x.precision() == 0 { 0 } else { x.precision() + k }).value(),
                1 => (x.clone() << k as isize) >> k as isize,
                2 => {
                    // un-normalised parts: significand * B^k, exponent - k
                    let sig = x.repr().significand() * IBig::from(B).pow(k);
                    let f = FBig::<R, B>::from_parts(sig, x.repr().exponent() - k as isize);
                    let p = if x.precision() == 0 { 0 } else { x.precision().max(f.precision()) };
                    f.with_precision(p).value()
                }
                3 => -(-x.clone()),
                4 => {
                    let y: FBig<mode::Up, B> = x.clone().with_rounding();
                    y.with_rounding()
                }
                5 => {
                    if x.precision() != 0 && x.digits() > x.precision() {
                        return env.skip();
                    }
                    let (sig, e) = x.clone().into_repr().into_parts();
                    FBig::from_repr(Repr::new(sig, e), x.context())
                }
                6 => {
                    let mut c = FBig::<R, B>::from_parts(IBig::from(B).pow(k + 3) + IBig::ONE, -3);
                    c.clone_from(x);
                    c
                }
                7 => x.clone() * Sign::Positive,
                _ => {
                    if x.precision() == 0 || x.digits() > x.precision() || x.repr().exponent().unsigned_abs() > 300 {
                        return env.skip();
                    }
                    // x + 0 and x * 1 at the same precision are exact
                    let one = FBig::<R, B>::ONE.with_precision(x.precision()).value();
                    (x + FBig::<R, B>::ZERO) * one
                }
            };
            ww.p[dst] = r;
            env.res(pid, dst);
        }
        "clone" => {
            let c = ww.p[a].clone();
            ww.p[dst] = c;
            env.res(pid, dst);
        }
        "clonefrom" => {
            if a == dst {
                let c = ww.p[a].clone();
                ww.p[dst].clone_from(&c);
            } else {
                let (d, s) = two_mut(ww.p, dst, a);
                d.clone_from(s);
            }
            env.res(pid, dst);
        }
        "take" => {
            let v = core::mem::take(&mut ww.p[a]);
            ww.p[dst] = v;
            env.res(pid, dst);
        }
        "swap" => {
            ww.p.swap(a, b);
            env.res(pid, a);
            env.res(pid, b);
        }
        "drop" => {
            ww.p[a] = FBig::ZERO;
            env.res(pid, a);
        }
        "intoparts" => {
            // through Repr and back
            if !ww.p[a].repr().is_finite() {
                return env.skip();
            }
            // from_repr documents digits <= precision as a precondition (checked in debug builds only)
            if ww.p[a].precision() != 0 && ww.p[a].digits() > ww.p[a].precision() {
                return env.skip();
            }
            let ctx = ww.p[a].context();
            let (s, e) = own!(ww.p[a], take).into_repr().into_parts();
            ww.p[dst] = FBig::from_repr(Repr::new(s, e), ctx);
            env.res(pid, dst);
        }
        "str" => {
            let x = &ww.p[a];
            if !tame(x) || x.repr().exponent().unsigned_abs() > 300 {
                return env.skip();
            }
            let s = match form % 4 {
                0 => x.to_string(),
                1 => format!("{:e}", x),
                2 => format!("{:.8}", x),
                _ => format!("{:+E}", x),
            };
            env.emit_str("s", &s);
            if let Ok(v) = s.parse::<FBig<R, B>>() {
                ww.p[dst] = v;
                env.res(pid, dst);
            } else {
                env.emit_u64("noparse", 1);
            }
        }
        "fmt" => {
            let x = &ww.p[a];
            if !tame(x) || x.repr().exponent().unsigned_abs() > 300 {
                return env.skip();
            }
            let mut sink = Sink { env, bytes: 0 };
            let r = match form % 6 {
                0 => write!(sink, "{}", x),
                1 => write!(sink, "{:?}", x),
                2 => write!(sink, "{:#?}", x),
                3 => write!(sink, "{:>30.4}", x),
                4 => write!(sink, "{:e}", x),
                _ => write!(sink, "{:+.0}", x),
            };
            let n = sink.bytes;
            env.emit_u64("ok", r.is_ok() as u64);
            env.emit_u64("len", n as u64);
        }
        "query" => {
            let x = &ww.p[a];
            let y = &ww.p[b];
            env.emit_u64("eq", (x == y) as u64);
            env.emit_ord("cmp", x.cmp(y));
            env.emit_sign("sign", x.sign());
            env.emit_u64("prec", x.precision() as u64);
            if tame(x) {
                env.emit_u64("digits", x.digits() as u64);
                env.emit_u64("isint", x.repr().is_int() as u64);
            }
        }
        "tof" => {
            // conversion to primitive floats (kept apart from query: it goes through the base conversion)
            let x = &ww.p[a];
            if !tame(x) || x.repr().exponent().unsigned_abs() >= 1200 {
                return env.skip();
            }
            match form % 2 {
                0 => {
                    let f = x.to_f64();
                    env.emit_f64("f64", f.value());
                }
                _ => {
                    let f = x.to_f32();
                    env.emit_f32("f32", f.value());
                }
            }
        }
        _ => untracked(|| panic!("dsim: unknown float op {}", rest)),
    }
}

fn finish_commuted<R: Round, const B: Word>(p: &mut Vec<FBig<R, B>>, pid: Pool, dst: usize, z: FBig<R, B>, env: &mut Env) {
    p[dst] = z;
    env.res(pid, dst);
}

// conversions between the two float pools (base change) -- dispatched from world::exec as "fd.*"
pub fn exec_fd(w: &mut World, op: &Op, rest: &str, env: &mut Env) {
    let (a, dst) = (ix(op.a), ix(op.dst));
    match rest {
        "todec" => {
            let x = &w.f[a];
            if !tame(x) || x.repr().exponent().unsigned_abs() > 600 || x.precision() == 0 && x.repr().exponent() < -300 {
                return env.skip();
            }
            let r = x.to_decimal();
            env.emit_u64("exact", matches!(r, Approximation::Exact(_)) as u64);
            w.d[dst] = r.value();
            env.res(Pool::D, dst);
        }
        "tobin" => {
            let x = &w.d[a];
            if !tame(x) || x.repr().exponent().unsigned_abs() > 200 || x.precision() == 0 && x.repr().exponent() < 0 {
                return env.skip();
            }
            let r = x.to_binary();
            env.emit_u64("exact", matches!(r, Approximation::Exact(_)) as u64);
            w.f[dst] = r.value();
            env.res(Pool::F, dst);
        }
        "todecp" => {
            // base change with an explicit target precision (with_base_and_precision)
            let x = &w.f[a];
            if !tame(x) || x.repr().exponent().unsigned_abs() > 600 {
                return env.skip();
            }
            let r = x.clone().with_base_and_precision::<10>(op.n.max(0) as usize);
            env.emit_u64("exact", matches!(r, Approximation::Exact(_)) as u64);
            w.d[dst] = r.value().with_rounding();
            env.res(Pool::D, dst);
        }
        "tobinp" => {
            let x = &w.d[a];
            if !tame(x) || x.repr().exponent().unsigned_abs() > 200 {
                return env.skip();
            }
            let r = x.clone().with_base_and_precision::<2>(op.n.max(0) as usize);
            env.emit_u64("exact", matches!(r, Approximation::Exact(_)) as u64);
            w.f[dst] = r.value().with_rounding();
            env.res(Pool::F, dst);
        }
        "viahex" | "viaoct" => {
            // base 2 -> 16 (or 8) -> 2: the second conversion takes the "old base is a power of the new base" shortcut
            let x = &w.f[a];
            if !tame(x) {
                return env.skip();
            }
            let r = if rest == "viahex" {
                let h: FBig<mode::Zero, 16> = x.clone().with_base::<16>().value();
                env.emit_u64("digits16", h.digits() as u64);
                h.with_base::<2>().value()
            } else {
                let h: FBig<mode::Zero, 8> = x.clone().with_base::<8>().value();
                h.with_base::<2>().value()
            };
            w.f[dst] = r;
            env.res(Pool::F, dst);
        }
        "rel16" | "rel9" | "rel4" => {
            // equality and ordering in further bases (a repeated prime factor makes normalisation matter: 16 = 2^4,
            // 9 = 3^2, 4 = 2^2): two routes to (mathematically related) values, dashu's ==/cmp against the exact relation
            let (x, y) = (&w.f[a], &w.f[ix(op.b)]);
            if !tame(x) || !tame(y) || x.repr().exponent().unsigned_abs() > 300 || y.repr().exponent().unsigned_abs() > 300 {
                return env.skip();
            }
            let k = op.n.unsigned_abs() as usize;
            match rest {
                "rel16" => relation_in_base::<16>(x, y, k, op.m, env),
                "rel9" => relation_in_base::<9>(x, y, k, op.m, env),
                _ => relation_in_base::<4>(x, y, k, op.m, env),
            }
        }
        "rounding" => {
            // same value under another rounding mode and back: must not change value or precision
            let x = w.f[a].clone();
            let y: FBig<mode::HalfEven, 2> = x.with_rounding();
            w.f[dst] = y.with_rounding();
            env.res(Pool::F, dst);
        }
        _ => untracked(|| panic!("dsim: unknown op fd.{}", rest)),
    }
}

#[allow(unused_imports)]
use {hex_ibig as _h, Signed as _S, SquareRoot as _Q};

/// one call form of a float binary operator executed under rounding mode `M`
fn binop_in_mode<M: Round, R: Round, const B: Word>(x: &FBig<R, B>, y: &FBig<R, B>, rest: &str, f: u16) -> FBig<R, B> {
    let x2: FBig<M, B> = x.clone().with_rounding();
    let y2: FBig<M, B> = y.clone().with_rounding();
    macro_rules! forms {
        ($tr:tt, $tra:tt, $ctx:ident) => {
            match f % 10 {
                0 => x2.clone() $tr y2.clone(),
                1 => x2.clone() $tr &y2,
                2 => &x2 $tr y2.clone(),
                3 => &x2 $tr &y2,
                4 | 6 => {
                    let mut t = x2.clone();
                    t $tra y2.clone();
                    t
                }
                5 | 7 => {
                    let mut t = x2.clone();
                    t $tra &y2;
                    t
                }
                _ => Context::max(x2.context(), y2.context()).$ctx(x2.repr(), y2.repr()).value(),
            }
        };
    }
    let r: FBig<M, B> = match rest {
        "add" => forms!(+, +=, add),
        "sub" => forms!(-, -=, sub),
        "mul" => forms!(*, *=, mul),
        "div" => forms!(/, /=, div),
        _ => forms!(%, %=, rem),
    };
    r.with_rounding()
}


/// exact comparison of sig1 * B^e1 with sig2 * B^e2
fn exact_cmp<const NB: Word>(p: &FBig<mode::Zero, NB>, q: &FBig<mode::Zero, NB>) -> Option<core::cmp::Ordering> {
    if !p.repr().is_finite() || !q.repr().is_finite() {
        return None;
    }
    let (s1, e1, s2, e2) = (p.repr().significand(), p.repr().exponent(), q.repr().significand(), q.repr().exponent());
    if (e1 - e2).unsigned_abs() > 4000 {
        return None;
    }
    let b = IBig::from(NB);
    Some(if e1 >= e2 { (s1 * b.pow((e1 - e2) as usize)).cmp(s2) } else { s1.cmp(&(s2 * b.pow((e2 - e1) as usize))) })
}

fn relation_in_base<const NB: Word>(x: &FBig<mode::Zero, 2>, y: &FBig<mode::Zero, 2>, k: usize, m: i64, env: &mut Env) {
    let prec = 1 + (m.unsigned_abs() as usize % 60);
    let hx: FBig<mode::Zero, NB> = x.clone().with_base_and_precision::<NB>(prec).value();
    let hy: FBig<mode::Zero, NB> = y.clone().with_base_and_precision::<NB>(prec).value();
    let unit = IBig::from(NB);
    let (p, q): (FBig<mode::Zero, NB>, FBig<mode::Zero, NB>) = match k % 8 {
        0 => (hx.sqr(), &hx * &hx),
        1 => (hx.cubic(), &hx * &hx * &hx),
        2 => (hx.powi(IBig::from(2 + (k / 8) % 3)), {
            let mut t = hx.clone();
            for _ in 0..(1 + (k / 8) % 3) {
                t = &t * &hx;
            }
            t
        }),
        3 => (&hx + &hy, &hy + &hx),
        4 => (&hx * &hy, &hy * &hx),
        5 => {
            // the same number from un-normalised parts
            let j = 1 + (k / 8) % 5;
            (hx.clone(), FBig::from_parts(hx.repr().significand() * unit.pow(j), hx.repr().exponent() - j as isize))
        }
        6 => (hx.sqr().with_precision(0).value(), (&hx * &hx).with_precision(prec + 7).value()),
        _ => (hx.clone() << (k / 8 % 7) as isize, hx.clone() * FBig::<mode::Zero, NB>::from_parts(IBig::ONE, (k / 8 % 7) as isize)),
    };
    let exact = match exact_cmp(&p, &q) {
        Some(o) => o,
        None => return env.skip(),
    };
    let (eq, ord, rev) = (p == q, p.cmp(&q), q.cmp(&p));
    env.emit_i64("ord", ord as i64);
    env.emit_u64("eq", eq as u64);
    if env.cmp_oracle && (eq != (exact == core::cmp::Ordering::Equal) || ord != exact || rev != exact.reverse()) {
        let d = untracked(|| {
            format!(
                "base {}: == says {}, cmp says {:?} / {:?}, values compare {:?}: {} vs {}",
                NB,
                eq,
                ord,
                rev,
                exact,
                text_fbig(&p),
                text_fbig(&q)
            )
        });
        env.violation = Some(untracked(|| ("float.cmp".to_string(), d)));
    }
}
