//! C19 (b): the serialization medium. value -> real serde serializer (serde_json / postcard / ciborium) or
//! byte/text conversion -> stored bytes -> fault stage -> (possibly faulty reader) -> real deserializer -> dashu
//! visitors. The oracle is embedded in the step: it knows the original and the decoded value.

use crate::ops::Op;
use crate::view::*;
use crate::world::*;
use dashu_base::{BitTest, Sign};
use dashu_float::{round::Round, FBig};
use dashu_int::{IBig, UBig, Word};
use dashu_ratio::{RBig, Relaxed};
use num_integer::Integer;
use num_traits::{One, Zero};
use serde::{de::DeserializeOwned, Deserialize, Serialize};
use std::io::Read;

pub const N_MEDIA: u16 = 6;
pub const N_FAULTS: i64 = 10;

#[derive(Serialize, Deserialize)]
struct RatTwin {
    numerator: IBig,
    denominator: UBig,
}
#[derive(Serialize, Deserialize)]
struct FloatTwin {
    significand: IBig,
    exponent: isize,
    precision: usize,
}
/// fields in another order / with an extra field (token-level corruption that stays well-formed)
#[derive(Serialize)]
struct RatTwinSwapped {
    denominator: UBig,
    numerator: IBig,
}
#[derive(Serialize)]
struct RatTwinExtra {
    numerator: IBig,
    denominator: UBig,
    extra: u8,
}
#[derive(Serialize)]
struct FloatTwinMissing {
    significand: IBig,
    exponent: isize,
}

/// reader that delivers at most a few bytes per call and reports `Interrupted` now and then
struct ShortReader<'a> {
    data: &'a [u8],
    pos: usize,
    tick: u32,
    chunk: usize,
}
impl<'a> Read for ShortReader<'a> {
    fn read(&mut self, buf: &mut [u8]) -> std::io::Result<usize> {
        self.tick += 1;
        if self.tick % 3 == 0 {
            return Err(std::io::Error::new(std::io::ErrorKind::Interrupted, "dsim: interrupted"));
        }
        let n = buf.len().min(self.chunk).min(self.data.len() - self.pos);
        buf[..n].copy_from_slice(&self.data[self.pos..self.pos + n]);
        self.pos += n;
        Ok(n)
    }
}

fn encode<T: Serialize>(x: &T, medium: u16) -> Result<Vec<u8>, String> {
    match medium {
        0 => serde_json::to_vec(x).map_err(|e| e.to_string()),
        1 => postcard::to_allocvec(x).map_err(|e| e.to_string()),
        _ => {
            let mut v = Vec::new();
            ciborium::ser::into_writer(x, &mut v).map_err(|e| e.to_string())?;
            Ok(v)
        }
    }
}

fn decode<T: DeserializeOwned>(bytes: &[u8], medium: u16, short_reads: bool) -> Result<T, String> {
    match medium {
        0 => {
            if short_reads {
                // serde_json::from_reader retries on Interrupted through std's Read adapters
                let r = ShortReader { data: bytes, pos: 0, tick: 0, chunk: 1 + bytes.len() % 3 };
                serde_json::from_reader(std::io::BufReader::with_capacity(4, r)).map_err(|e| e.to_string())
            } else {
                serde_json::from_slice(bytes).map_err(|e| e.to_string())
            }
        }
        1 => postcard::from_bytes(bytes).map_err(|e| e.to_string()),
        _ => {
            if short_reads {
                let r = ShortReader { data: bytes, pos: 0, tick: 0, chunk: 1 + bytes.len() % 3 };
                ciborium::de::from_reader(std::io::BufReader::with_capacity(4, r)).map_err(|e| e.to_string())
            } else {
                ciborium::de::from_reader(bytes).map_err(|e| e.to_string())
            }
        }
    }
}

/// applies the byte-level fault; returns false if the bytes are unchanged (then the decode must round-trip)
fn corrupt(bytes: &mut Vec<u8>, kind: i64, pos: usize, val: u8) -> bool {
    let before = bytes.clone();
    let n = bytes.len();
    match kind {
        1 => bytes.truncate(pos % (n + 1)),
        2 if n > 0 => bytes[(pos / 8) % n] ^= 1 << (pos % 8),
        3 if n > 0 => {
            bytes.remove(pos % n);
        }
        4 if n > 0 => {
            let b = bytes[pos % n];
            bytes.insert(pos % n, b);
        }
        5 => bytes.insert(pos % (n + 1), val),
        6 if n > 0 => bytes[pos % n] = val,
        7 if n > 1 => {
            let k = 1 + pos % (n - 1);
            bytes.rotate_left(k);
        }
        _ => {}
    }
    *bytes != before
}

// ------------------------------------------------------------------ canonical-form checks on decoded values
pub fn canon_rbig(v: &RBig) -> Result<(), String> {
    let (n, d) = (ibig_to_bigint(v.numerator()), ubig_to_bigint(v.denominator()));
    if d.is_zero() {
        return Err(format!("zero denominator: {}", text_rbig(v)));
    }
    if !n.gcd(&d).is_one() || (n.is_zero() && !d.is_one()) {
        return Err(format!("not in lowest terms: {}", text_rbig(v)));
    }
    Ok(())
}
pub fn canon_relaxed(v: &Relaxed) -> Result<(), String> {
    let d = ubig_to_bigint(v.denominator());
    if d.is_zero() {
        return Err(format!("zero denominator: {}", text_relaxed(v)));
    }
    Ok(())
}
pub fn canon_fbig<R: Round, const B: Word>(v: &FBig<R, B>) -> Result<(), String> {
    let r = v.repr();
    if r.is_infinite() {
        return Ok(());
    }
    let sig = r.significand();
    if sig.is_zero() {
        return if r.exponent() == 0 { Ok(()) } else { Err(format!("zero with exponent: {}", text_fbig(v))) };
    }
    // normalised: significand not divisible by the base
    let b = IBig::from(B);
    if (sig % &b).is_zero() {
        return Err(format!("significand divisible by the base: {}", text_fbig(v)));
    }
    if v.precision() != 0 && r.digits() > v.precision().saturating_add(1) {
        return Err(format!("{} digits at precision {}: {}", r.digits(), v.precision(), text_fbig(v)));
    }
    Ok(())
}
fn canon_repr<const B: Word>(r: &dashu_float::Repr<B>) -> Result<(), String> {
    if r.is_infinite() {
        return Ok(());
    }
    if r.significand().is_zero() {
        return if r.exponent() == 0 { Ok(()) } else { Err(format!("zero with exponent: {:?}", r)) };
    }
    if (r.significand() % IBig::from(B)).is_zero() {
        return Err(format!("significand divisible by the base: {:?}", r));
    }
    Ok(())
}
fn canon_int(_v: &IBig) -> Result<(), String> {
    // the storage invariants of the integer are checked by the structural audit once it sits in the pool
    Ok(())
}

fn note(env: &mut Env, class: &str, detail: String) {
    // keep the report in harness memory (the step's own allocations are audited)
    let kept = untracked(|| detail.clone());
    drop(detail);
    // the decoder accepting a precision smaller than the number of digits is a class of its own that leaves
    // the rest of the run meaningful
    if class == "medium.noncanonical" && kept.contains(" digits at precision ") {
        if env.soft.is_none() {
            untracked(|| env.soft = Some(("medium.noncanonical.float_precision".to_string(), kept)));
        } else {
            untracked(|| drop(kept));
        }
        return;
    }
    if env.violation.is_none() {
        untracked(|| env.violation = Some((class.to_string(), kept)));
    } else {
        untracked(|| drop(kept));
    }
}

/// one serde round trip with an optional byte-level fault. `same` compares original and decoded value.
fn serde_step<T: Serialize + DeserializeOwned>(
    x: &T,
    op: &Op,
    env: &mut Env,
    what: &str,
    same: impl Fn(&T, &T, bool) -> bool,
    canon: impl Fn(&T) -> Result<(), String>,
    describe: impl Fn(&T) -> String,
) -> Option<T> {
    let medium = (op.form & 255) % 3;
    let kind = op.m.rem_euclid(N_FAULTS);
    let pos = op.lit.get(..4).map(|b| u32::from_le_bytes([b[0], b[1], b[2], b[3]]) as usize).unwrap_or(0);
    let val = op.lit.get(4).copied().unwrap_or(0);
    let mut bytes = match encode(x, medium) {
        Ok(b) => b,
        Err(e) => {
            note(env, "medium.encode_failed", format!("{} medium {}: serializing {} failed: {}", what, medium, describe(x), e));
            return None;
        }
    };
    env.emit_bytes("enc", &bytes);
    let changed = corrupt(&mut bytes, kind, pos, val);
    let short = kind == 8;
    match decode::<T>(&bytes, medium, short) {
        Ok(v) => {
            if !changed {
                if !same(x, &v, medium == 0) {
                    note(
                        env,
                        "medium.roundtrip",
                        format!("{} medium {}: {} decoded as {} (fault kind {}, bytes intact)", what, medium, describe(x), describe(&v), kind),
                    );
                }
            }
            if let Err(e) = canon(&v) {
                note(env, "medium.noncanonical", format!("{} medium {} fault {}: decoder constructed a non-canonical value: {}", what, medium, kind, e));
            }
            env.emit_u64("decoded", 1);
            Some(v)
        }
        Err(_) => {
            if !changed {
                note(env, "medium.roundtrip", format!("{} medium {}: decoding the intact encoding of {} failed (fault kind {})", what, medium, describe(x), kind));
            }
            env.emit_u64("decoded", 0);
            None
        }
    }
}

/// decode a well-formed "twin" encoding (same shape, hand-chosen field values) as T
fn twin_step<S: Serialize, T: DeserializeOwned>(
    twin: &S,
    op: &Op,
    env: &mut Env,
    what: &str,
    canon: impl Fn(&T) -> Result<(), String>,
) -> Option<T> {
    let medium = (op.form & 255) % 3;
    let bytes = match encode(twin, medium) {
        Ok(b) => b,
        Err(_) => return None,
    };
    env.emit_bytes("twin", &bytes);
    match decode::<T>(&bytes, medium, false) {
        Ok(v) => {
            if let Err(e) = canon(&v) {
                note(env, "medium.noncanonical", format!("{} medium {} twin {}: decoder constructed a non-canonical value: {}", what, medium, op.n, e));
            }
            env.emit_u64("decoded", 1);
            Some(v)
        }
        Err(_) => {
            env.emit_u64("decoded", 0);
            None
        }
    }
}

fn same_f<R: Round, const B: Word>(a: &FBig<R, B>, b: &FBig<R, B>, human: bool) -> bool {
    // human readable formats print the value, not the precision
    a == b && (human || a.precision() == b.precision())
}

pub fn exec_med(w: &mut World, op: &Op, rest: &str, env: &mut Env) {
    let (a, b, dst) = (ix(op.a), ix(op.b), ix(op.dst));
    let pool = if rest == "serde" { op.c % 8 } else { op.c % 6 };
    match rest {
        // ---------------- serde media with byte-level faults
        "serde" => match pool {
            0 => {
                if let Some(v) = serde_step(&w.u[a], op, env, "UBig", |x, y, _| x == y, |v| canon_int(v.as_ibig()), |v| hex_ubig(v)) {
                    w.u[dst] = v;
                    env.res(Pool::U, dst);
                }
            }
            1 => {
                if let Some(v) = serde_step(&w.i[a], op, env, "IBig", |x, y, _| x == y, canon_int, |v| hex_ibig(v)) {
                    w.i[dst] = v;
                    env.res(Pool::I, dst);
                }
            }
            2 => {
                if !float_ok(&w.f[a]) {
                    return env.skip();
                }
                if let Some(v) = serde_step(&w.f[a], op, env, "FBig<Zero,2>", same_f, canon_fbig, |v| text_fbig(v)) {
                    w.f[dst] = v;
                    env.res(Pool::F, dst);
                }
            }
            3 => {
                if !float_ok(&w.d[a]) {
                    return env.skip();
                }
                if let Some(v) = serde_step(&w.d[a], op, env, "DBig", same_f, canon_fbig, |v| text_fbig(v)) {
                    w.d[dst] = v;
                    env.res(Pool::D, dst);
                }
            }
            4 => {
                if let Some(v) = serde_step(&w.r[a], op, env, "RBig", |x, y, _| x == y, canon_rbig, |v| text_rbig(v)) {
                    w.r[dst] = v;
                    env.res(Pool::R, dst);
                }
            }
            5 => {
                if let Some(v) = serde_step(&w.x[a], op, env, "Relaxed", |x, y, _| x == y, canon_relaxed, |v| text_relaxed(v)) {
                    w.x[dst] = v;
                    env.res(Pool::X, dst);
                }
            }
            // the representation type of the floats has Serialize / Deserialize impls (and a visitor) of its own
            6 => {
                if !float_ok(&w.f[a]) {
                    return env.skip();
                }
                let r0 = w.f[a].repr().clone();
                if let Some(v) = serde_step(&r0, op, env, "Repr<2>", |x, y, _| x == y, canon_repr::<2>, |v| format!("{:?}", v)) {
                    let f = FBin::from_repr(v, dashu_float::Context::new(0));
                    if float_ok(&f) {
                        w.f[dst] = f;
                        env.res(Pool::F, dst);
                    }
                }
            }
            _ => {
                if !float_ok(&w.d[a]) {
                    return env.skip();
                }
                let r0 = w.d[a].repr().clone();
                if let Some(v) = serde_step(&r0, op, env, "Repr<10>", |x, y, _| x == y, canon_repr::<10>, |v| format!("{:?}", v)) {
                    let f = FDec::from_repr(v, dashu_float::Context::new(0));
                    if float_ok(&f) {
                        w.d[dst] = f;
                        env.res(Pool::D, dst);
                    }
                }
            }
        },
        // ---------------- well-formed encodings of non-canonical component values ("semantic" corruption)
        "twin" => {
            let k = UBig::from(op.m.unsigned_abs() % 7 + 2);
            match pool {
                4 | 5 => {
                    let n = w.i[a].clone();
                    let d = w.u[b].clone();
                    let medium = (op.form & 255) % 3;
                    if medium == 0 {
                        // human readable: a literal string
                        let s = match op.n.rem_euclid(5) {
                            0 => format!("\"{}/0\"", n),
                            1 => format!("\"{}/{}\"", &n * IBig::from(k.clone()), &d * &k),
                            2 => format!("\"0/{}\"", &d + UBig::from(2u8)),
                            3 => format!("\"-0/{}\"", &d + UBig::ONE),
                            _ => format!("\"{}/-{}\"", n, &d + UBig::ONE),
                        };
                        env.emit_str("twin", &s);
                        if pool == 4 {
                            if let Ok(v) = serde_json::from_str::<RBig>(&s) {
                                if let Err(e) = canon_rbig(&v) {
                                    note(env, "medium.noncanonical", format!("RBig from JSON {}: {}", s, e));
                                }
                                w.r[dst] = v;
                                env.res(Pool::R, dst);
                            }
                        } else if let Ok(v) = serde_json::from_str::<Relaxed>(&s) {
                            if let Err(e) = canon_relaxed(&v) {
                                note(env, "medium.noncanonical", format!("Relaxed from JSON {}: {}", s, e));
                            }
                            w.x[dst] = v;
                            env.res(Pool::X, dst);
                        }
                        return;
                    }
                    macro_rules! go {
                        ($twin:expr) => {
                            if pool == 4 {
                                if let Some(v) = twin_step::<_, RBig>(&$twin, op, env, "RBig", canon_rbig) {
                                    w.r[dst] = v;
                                    env.res(Pool::R, dst);
                                }
                            } else if let Some(v) = twin_step::<_, Relaxed>(&$twin, op, env, "Relaxed", canon_relaxed) {
                                w.x[dst] = v;
                                env.res(Pool::X, dst);
                            }
                        };
                    }
                    match op.n.rem_euclid(7) {
                        0 => go!(RatTwin { numerator: n, denominator: UBig::ZERO }),
                        1 => go!(RatTwin { numerator: n * IBig::from(k.clone()), denominator: d * k }),
                        2 => go!(RatTwin { numerator: IBig::ZERO, denominator: d + UBig::from(2u8) }),
                        3 => go!(RatTwinSwapped { denominator: d, numerator: n }),
                        4 => go!(RatTwinExtra { numerator: n, denominator: d, extra: 7 }),
                        5 => go!((n, d, 5u8)),
                        _ => go!((n, UBig::ZERO)),
                    }
                }
                _ => {
                    let sig = w.i[a].clone();
                    if sig.bit_len() > 2000 {
                        return env.skip();
                    }
                    let exp = match op.n.rem_euclid(9) {
                        6 => isize::MAX,
                        7 => isize::MIN,
                        _ => (op.b as isize) - 2,
                    };
                    let digits_prec = op.m.unsigned_abs() as usize % 40;
                    macro_rules! gof {
                        ($twin:expr) => {
                            if pool % 2 == 0 {
                                if let Some(v) = twin_step::<_, FBin>(&$twin, op, env, "FBig<Zero,2>", canon_fbig) {
                                    w.f[dst] = v;
                                    env.res(Pool::F, dst);
                                }
                            } else if let Some(v) = twin_step::<_, FDec>(&$twin, op, env, "DBig", canon_fbig) {
                                w.d[dst] = v;
                                env.res(Pool::D, dst);
                            }
                        };
                    }
                    if (op.form & 255) % 3 == 0 {
                        return env.skip(); // human readable floats are literal strings: covered by "text"
                    }
                    match op.n.rem_euclid(9) {
                        0 => gof!(FloatTwin { significand: sig, exponent: exp, precision: digits_prec }),
                        1 => gof!(FloatTwin { significand: sig * IBig::from(1000), exponent: exp, precision: 0 }),
                        2 => gof!(FloatTwin { significand: sig << 7, exponent: exp, precision: 3 }),
                        3 => gof!(FloatTwin { significand: IBig::ZERO, exponent: exp, precision: 5 }),
                        4 => gof!(FloatTwinMissing { significand: sig, exponent: exp }),
                        5 => gof!((sig, exp, digits_prec, 1u8)),
                        _ => gof!(FloatTwin { significand: sig, exponent: exp, precision: 0 }),
                    }
                }
            }
        }
        // ---------------- token level: a self-describing value tree near the expected shape, mutated, handed to the
        // real Deserialize impls through ciborium::Value's Deserializer (strings owned, maps with duplicate or
        // missing or extra keys, wrong token types, sequences instead of maps, bytes vs text, out-of-range integers)
        "tokens" => {
            use ciborium::Value as V;
            let mut x = Rng64(op.n as u64 ^ 0x9E3779B97F4A7C15 ^ ((op.m as u64) << 32));
            let int_bytes = |v: &IBig| -> V {
                // the binary form of the integers: little-endian magnitude, sign in the length parity
                let (s, words) = v.as_sign_words();
                let mut b = le_bytes_of_words(words);
                if (s == Sign::Positive && b.len() & 1 == 1) || (s == Sign::Negative && b.len() & 1 == 0) {
                    b.push(0);
                }
                V::Bytes(b)
            };
            let n = int_bytes(&w.i[a]);
            let d = V::Bytes(le_bytes_of_words(w.u[b].as_words()));
            let weird = |x: &mut Rng64, base: V| -> V {
                match x.next() % 12 {
                    0 => V::Null,
                    1 => V::Bool(true),
                    2 => V::Text("12".into()),
                    3 => V::Float(1.5),
                    4 => V::Array(vec![base.clone(), base]),
                    5 => V::Integer((-1i64).into()),
                    6 => V::Integer(u64::MAX.into()),
                    7 => V::Bytes(vec![]),
                    8 => V::Bytes(vec![0, 0, 0, 0, 0, 0, 0, 0, 0]),
                    9 => V::Map(vec![]),
                    _ => base,
                }
            };
            let tree = match pool {
                4 | 5 => {
                    let mut fields = vec![(V::Text("numerator".into()), weird(&mut x, n.clone())), (V::Text("denominator".into()), weird(&mut x, d.clone()))];
                    match x.next() % 8 {
                        0 => fields.push((V::Text("numerator".into()), n.clone())),
                        1 => fields.push((V::Text("extra".into()), V::Null)),
                        2 => {
                            fields.pop();
                        }
                        3 => fields.swap(0, 1),
                        4 => fields[1].0 = V::Bytes(b"denominator".to_vec()),
                        5 => fields[0].0 = V::Integer(0.into()),
                        _ => {}
                    }
                    if x.next() % 3 == 0 {
                        V::Array(fields.into_iter().map(|f| f.1).collect())
                    } else {
                        V::Map(fields)
                    }
                }
                0 | 1 => weird(&mut x, if pool == 0 { d.clone() } else { n.clone() }),
                _ => {
                    let e = match x.next() % 6 {
                        0 => V::Integer(i64::MAX.into()),
                        1 => V::Integer(i64::MIN.into()),
                        2 => V::Integer(((x.next() % 200) as i64 - 100).into()),
                        3 => V::Float(2.0),
                        _ => V::Integer(3.into()),
                    };
                    let pr = match x.next() % 5 {
                        0 => V::Integer((-5i64).into()),
                        1 => V::Integer(u64::MAX.into()),
                        2 => V::Integer(0.into()),
                        _ => V::Integer(((x.next() % 50) as i64).into()),
                    };
                    let mut fields = vec![
                        (V::Text("significand".into()), weird(&mut x, n.clone())),
                        (V::Text("exponent".into()), weird(&mut x, e)),
                        (V::Text("precision".into()), weird(&mut x, pr)),
                    ];
                    match x.next() % 8 {
                        0 => fields.push((V::Text("exponent".into()), V::Integer(1.into()))),
                        1 => {
                            fields.remove(1);
                        }
                        2 => fields.swap(0, 2),
                        3 => fields.push((V::Text("more".into()), V::Integer(1.into()))),
                        _ => {}
                    }
                    if x.next() % 3 == 0 {
                        V::Array(fields.into_iter().map(|f| f.1).collect())
                    } else {
                        V::Map(fields)
                    }
                }
            };
            env.emit_u64("shape", x.0 % 1000);
            macro_rules! tok {
                ($T:ty, $canon:expr, $put:expr) => {
                    match tree.deserialized::<$T>() {
                        Ok(v) => {
                            let c: Result<(), String> = $canon(&v);
                            if let Err(e) = c {
                                note(env, "medium.noncanonical", format!("token tree {:?}: decoder constructed a non-canonical value: {}", tree, e));
                            }
                            env.emit_u64("decoded", 1);
                            $put(v);
                        }
                        Err(_) => env.emit_u64("decoded", 0),
                    }
                };
            }
            match pool {
                0 => tok!(UBig, |v: &UBig| canon_int(v.as_ibig()), |v| {
                    w.u[dst] = v;
                    env.res(Pool::U, dst)
                }),
                1 => tok!(IBig, canon_int, |v| {
                    w.i[dst] = v;
                    env.res(Pool::I, dst)
                }),
                2 => tok!(FBin, canon_fbig, |v: FBin| {
                    if float_ok(&v) {
                        w.f[dst] = v;
                        env.res(Pool::F, dst)
                    }
                }),
                3 => tok!(FDec, canon_fbig, |v: FDec| {
                    if float_ok(&v) {
                        w.d[dst] = v;
                        env.res(Pool::D, dst)
                    }
                }),
                4 => tok!(RBig, canon_rbig, |v| {
                    w.r[dst] = v;
                    env.res(Pool::R, dst)
                }),
                _ => tok!(Relaxed, canon_relaxed, |v| {
                    w.x[dst] = v;
                    env.res(Pool::X, dst)
                }),
            }
        }
        // ---------------- floats with extreme exponent / precision through the binary media (cheap: no arithmetic)
        "bigexp" => {
            let sig = IBig::from(op.a as i32 * 2 + 1) * if op.b & 1 == 1 { Sign::Negative } else { Sign::Positive };
            let exp = op.n.clamp(isize::MIN as i64 / 2, isize::MAX as i64 / 2) as isize;
            let prec = op.m.unsigned_abs() as usize;
            let medium = 1 + (op.form & 255) % 2;
            macro_rules! big {
                ($T:ty, $pool:ident, $P:expr) => {{
                    let x: $T = <$T>::from_parts(sig, exp).with_precision(prec).value();
                    let o2 = Op { form: medium, m: 0, ..Op::new("med.serde") };
                    if let Some(v) = serde_step(&x, &o2, env, stringify!($T), same_f, canon_fbig, |v| text_fbig(v)) {
                        // keep pool exponents tame: only the verdict matters here
                        drop(v);
                    }
                    let _ = $P;
                }};
            }
            if pool % 2 == 0 {
                big!(FBin, f, Pool::F)
            } else {
                big!(FDec, d, Pool::D)
            }
        }
        // ---------------- byte media of the integers (to_*_bytes / from_*_bytes) with faults
        "bytes" => {
            let kind = op.m.rem_euclid(8);
            let pos = op.lit.get(..4).map(|b| u32::from_le_bytes([b[0], b[1], b[2], b[3]]) as usize).unwrap_or(0);
            let val = op.lit.get(4).copied().unwrap_or(0);
            let be = op.form & 1 == 1;
            if pool % 2 == 0 {
                let x = &w.u[a];
                let mut bytes: Vec<u8> = if be { x.to_be_bytes().into_vec() } else { x.to_le_bytes().into_vec() };
                env.emit_bytes("enc", &bytes);
                let changed = corrupt(&mut bytes, kind, pos, val);
                let v = if be { UBig::from_be_bytes(&bytes) } else { UBig::from_le_bytes(&bytes) };
                if !changed && v != *x {
                    note(env, "medium.roundtrip", format!("UBig bytes (be={}): {} read back as {}", be, hex_ubig(x), hex_ubig(&v)));
                }
                w.u[dst] = v;
                env.res(Pool::U, dst);
            } else {
                let x = &w.i[a];
                let mut bytes: Vec<u8> = if be { x.to_be_bytes().into_vec() } else { x.to_le_bytes().into_vec() };
                env.emit_bytes("enc", &bytes);
                let changed = corrupt(&mut bytes, kind, pos, val);
                let v = if be { IBig::from_be_bytes(&bytes) } else { IBig::from_le_bytes(&bytes) };
                if !changed && v != *x {
                    note(env, "medium.roundtrip", format!("IBig bytes (be={}): {} read back as {}", be, hex_ibig(x), hex_ibig(&v)));
                }
                w.i[dst] = v;
                env.res(Pool::I, dst);
            }
        }
        // ---------------- human-readable medium carrying text that dashu itself would not write: radix prefixes, signs,
        // leading zeros, underscores (the decoders go through from_str_with_radix_prefix)
        "jtext" => {
            let kind = op.n.rem_euclid(9);
            let hexs = |v: &UBig| format!("{:x}", v);
            macro_rules! jt {
                ($T:ty, $orig:expr, $text:expr, $must_decode:expr, $must_refuse:expr, $desc:expr, $put:expr) => {{
                    let text: String = $text;
                    let json = format!("\"{}\"", text);
                    env.emit_str("json", &json);
                    match decode::<$T>(json.as_bytes(), 0, false) {
                        Ok(v) => {
                            if $must_refuse {
                                note(env, "medium.roundtrip", format!("{} accepted from the malformed text {}: {}", stringify!($T), json, $desc(&v)));
                            } else if v != *$orig {
                                note(env, "medium.roundtrip", format!("{} text {} decoded as {} instead of {}", stringify!($T), json, $desc(&v), $desc($orig)));
                            }
                            env.emit_u64("decoded", 1);
                            $put(v);
                        }
                        Err(_) => {
                            if $must_decode {
                                note(env, "medium.roundtrip", format!("{} text {} (= {}) is refused", stringify!($T), json, $desc($orig)));
                            }
                            env.emit_u64("decoded", 0);
                        }
                    }
                }};
            }
            // text of a magnitude in the chosen shape; (text, must decode, must be refused)
            let shape = |mag: &UBig, neg: bool, kind: i64| -> (String, bool, bool) {
                let sg = if neg { "-" } else { "" };
                match kind {
                    0 => (format!("{}0x{}", sg, hexs(mag)), true, false),
                    1 => (format!("{}0b{:b}", sg, mag), true, false),
                    2 => (format!("{}0o{:o}", sg, mag), true, false),
                    3 => (format!("{}{}", if neg { "-" } else { "+" }, mag), true, false),
                    4 => (format!("{}000000000000000000000000000000000000000000000000000000000000000000000{}", sg, mag), true, false),
                    5 => {
                        // underscores between digits: either ignored or refused, never another number
                        let d = mag.to_string();
                        let mut t = String::new();
                        for (i, c) in d.chars().enumerate() {
                            if i > 0 && (d.len() - i) % 3 == 0 {
                                t.push('_');
                            }
                            t.push(c);
                        }
                        (format!("{}{}", sg, t), false, false)
                    }
                    6 => (format!("{}0x{}g", sg, hexs(mag)), false, true),
                    // a decimal digit string behind a binary prefix (when it happens to be binary it is another number: skipped)
                    7 => {
                        let d = (mag + UBig::from(2u8)).to_string();
                        if d.chars().all(|c| c == '0' || c == '1') {
                            (String::new(), false, false)
                        } else {
                            (format!("{}0b{}", sg, d), false, true)
                        }
                    }
                    _ => (format!("{}0x", sg), false, true),
                }
            };
            match pool {
                0 => {
                    let x = w.u[a].clone();
                    let (t, md, mr) = shape(&x, false, kind);
                    if t.is_empty() {
                        return env.skip();
                    }
                    jt!(UBig, &x, t, md, mr, |v: &UBig| hex_ubig(v), |v| {
                        w.u[dst] = v;
                        env.res(Pool::U, dst)
                    })
                }
                1 => {
                    let x = w.i[a].clone();
                    let (sgn, mag) = x.clone().into_parts();
                    let (t, md, mr) = shape(&mag, sgn == Sign::Negative, kind);
                    if t.is_empty() {
                        return env.skip();
                    }
                    jt!(IBig, &x, t, md, mr, |v: &IBig| hex_ibig(v), |v| {
                        w.i[dst] = v;
                        env.res(Pool::I, dst)
                    })
                }
                _ => {
                    // rationals: prefix on the numerator, the denominator inherits it or repeats it; a different prefix is refused
                    let x = w.r[a].clone();
                    let (sgn, mag) = x.numerator().clone().into_parts();
                    let den = x.denominator().clone();
                    let sg = if sgn == Sign::Negative { "-" } else { "" };
                    let (t, md, mr): (String, bool, bool) = match kind {
                        0 => (format!("{}0x{}/0x{}", sg, hexs(&mag), hexs(&den)), true, false),
                        1 => (format!("{}0x{}/{}", sg, hexs(&mag), hexs(&den)), true, false),
                        2 => (format!("{}0o{:o}/{:o}", sg, mag, den), true, false),
                        3 => (format!("+{}/{}", mag, den), sgn != Sign::Negative, false),
                        4 => (format!("{}0x{}/0b{:b}", sg, hexs(&mag), den), false, !den.is_one() || true),
                        5 => (format!("{}{}/0x{}", sg, mag, hexs(&den)), false, true),
                        6 => (format!("{}0b{:b}/-0b{:b}", sg, mag, den), false, false),
                        7 => (format!("{}0x{}/0x0", sg, hexs(&mag)), false, true),
                        _ => (format!("{}{}/+{}", sg, mag, den), true, false),
                    };
                    if pool % 2 == 0 {
                        // "+m/d" denotes |x|; a negative denominator flips the sign
                        let expect = if (kind == 3 && sgn == Sign::Negative) || kind == 6 { -x.clone() } else { x.clone() };
                        jt!(RBig, &expect, t, md, mr, |v: &RBig| text_rbig(v), |v: RBig| {
                            if let Err(e) = canon_rbig(&v) {
                                note(env, "medium.noncanonical", format!("RBig from JSON text: {}", e));
                            }
                            w.r[dst] = v;
                            env.res(Pool::R, dst)
                        })
                    } else {
                        let xr = x.clone().relax();
                        let expect = if (kind == 3 && sgn == Sign::Negative) || kind == 6 { -xr.clone() } else { xr.clone() };
                        jt!(Relaxed, &expect, t, md, mr, |v: &Relaxed| text_relaxed(v), |v: Relaxed| {
                            w.x[dst] = v;
                            env.res(Pool::X, dst)
                        })
                    }
                }
            }
        }
        // ---------------- text medium (Display / FromStr) with faults on the characters
        "text" => {
            let kind = op.m.rem_euclid(8);
            let pos = op.lit.get(..4).map(|b| u32::from_le_bytes([b[0], b[1], b[2], b[3]]) as usize).unwrap_or(0);
            let val = b"0123456789abcdefxoXEe+-._/ @"[op.lit.get(4).copied().unwrap_or(0) as usize % 28];
            macro_rules! text_rt {
                ($x:expr, $T:ty, $canon:expr, $desc:expr, $put:expr) => {{
                    let x = $x;
                    let mut bytes = x.to_string().into_bytes();
                    env.emit_bytes("enc", &bytes);
                    let changed = corrupt(&mut bytes, kind, pos, val);
                    let s = String::from_utf8_lossy(&bytes).into_owned();
                    match s.parse::<$T>() {
                        Ok(v) => {
                            if !changed && v != *x {
                                note(env, "medium.roundtrip", format!("text: {} printed as {:?} parsed as {}", $desc(x), s, $desc(&v)));
                            }
                            let c: Result<(), String> = $canon(&v);
                            if let Err(e) = c {
                                note(env, "medium.noncanonical", format!("text {:?}: parser constructed a non-canonical value: {}", s, e));
                            }
                            env.emit_u64("decoded", 1);
                            $put(v);
                        }
                        Err(_) => {
                            if !changed {
                                note(env, "medium.roundtrip", format!("text: {} printed as {:?} does not parse", $desc(x), s));
                            }
                            env.emit_u64("decoded", 0);
                        }
                    }
                }};
            }
            match pool {
                0 => text_rt!(&w.u[a], UBig, |v: &UBig| canon_int(v.as_ibig()), |v: &UBig| hex_ubig(v), |v| {
                    w.u[dst] = v;
                    env.res(Pool::U, dst)
                }),
                1 => text_rt!(&w.i[a], IBig, canon_int, |v: &IBig| hex_ibig(v), |v| {
                    w.i[dst] = v;
                    env.res(Pool::I, dst)
                }),
                2 => {
                    if !float_ok(&w.f[a]) {
                        return env.skip();
                    }
                    text_rt!(&w.f[a], FBin, canon_fbig, |v: &FBin| text_fbig(v), |v| {
                        w.f[dst] = v;
                        env.res(Pool::F, dst)
                    })
                }
                3 => {
                    if !float_ok(&w.d[a]) {
                        return env.skip();
                    }
                    text_rt!(&w.d[a], FDec, canon_fbig, |v: &FDec| text_fbig(v), |v| {
                        w.d[dst] = v;
                        env.res(Pool::D, dst)
                    })
                }
                4 => text_rt!(&w.r[a], RBig, canon_rbig, |v: &RBig| text_rbig(v), |v| {
                    w.r[dst] = v;
                    env.res(Pool::R, dst)
                }),
                _ => text_rt!(&w.x[a], Relaxed, canon_relaxed, |v: &Relaxed| text_relaxed(v), |v| {
                    w.x[dst] = v;
                    env.res(Pool::X, dst)
                }),
            }
        }
        _ => untracked(|| panic!("dsim: unknown op med.{}", rest)),
    }
}

fn float_ok<R: Round, const B: Word>(x: &FBig<R, B>) -> bool {
    x.repr().exponent().unsigned_abs() <= 400 && x.repr().significand().bit_len() <= 3000 && x.precision() <= 2000
}

#[allow(dead_code)]
fn _s(_: Sign) {}

/// tiny local generator for the token trees (derived from the op's scalars, so the op list stays the replay)
struct Rng64(u64);
impl Rng64 {
    fn next(&mut self) -> u64 {
        self.0 ^= self.0 << 13;
        self.0 ^= self.0 >> 7;
        self.0 ^= self.0 << 17;
        self.0
    }
}
