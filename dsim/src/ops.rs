//! Operation lists: the explicit, replayable form of one simulated execution.
//!
//! Text form (one op per line): `name a=1 b=2 dst=0 form=3 n=17 m=0 lit=ffee fault=alloc:2`.
//! All fields except the name are optional (default 0 / empty / none).

use std::fmt::Write as _;

#[derive(Clone, Copy, Debug, PartialEq, Eq)]
pub enum FaultKind {
    /// k-th fallible allocation/reallocation event inside this step returns null
    Alloc,
    /// caller-supplied callback (fmt sink / iterator / hasher / serializer) returns an error at its k-th call
    CbErr,
    /// caller-supplied callback panics at its k-th call
    CbPanic,
}

#[derive(Clone, Copy, Debug, PartialEq, Eq)]
pub struct Fault {
    pub kind: FaultKind,
    pub k: u32,
}

#[derive(Clone, Debug, PartialEq, Eq)]
pub struct Op {
    pub name: String,
    pub a: u8,
    pub b: u8,
    pub c: u8,
    pub dst: u8,
    pub form: u16,
    pub n: i64,
    pub m: i64,
    pub lit: Vec<u8>,
    pub fault: Option<Fault>,
}

impl Op {
    pub fn new(name: &str) -> Op {
        Op { name: name.to_string(), a: 0, b: 0, c: 0, dst: 0, form: 0, n: 0, m: 0, lit: Vec::new(), fault: None }
    }
    pub fn a(mut self, v: u64) -> Op {
        self.a = v as u8;
        self
    }
    pub fn b(mut self, v: u64) -> Op {
        self.b = v as u8;
        self
    }
    pub fn c(mut self, v: u64) -> Op {
        self.c = v as u8;
        self
    }
    pub fn dst(mut self, v: u64) -> Op {
        self.dst = v as u8;
        self
    }
    pub fn form(mut self, v: u64) -> Op {
        self.form = v as u16;
        self
    }
    pub fn n(mut self, v: i64) -> Op {
        self.n = v;
        self
    }
    pub fn m(mut self, v: i64) -> Op {
        self.m = v;
        self
    }
    pub fn lit(mut self, v: Vec<u8>) -> Op {
        self.lit = v;
        self
    }

    pub fn family(&self) -> &str {
        &self.name
    }

    pub fn to_line(&self) -> String {
        let mut s = String::with_capacity(48 + 2 * self.lit.len());
        s.push_str(&self.name);
        if self.a != 0 {
            let _ = write!(s, " a={}", self.a);
        }
        if self.b != 0 {
            let _ = write!(s, " b={}", self.b);
        }
        if self.c != 0 {
            let _ = write!(s, " c={}", self.c);
        }
        if self.dst != 0 {
            let _ = write!(s, " dst={}", self.dst);
        }
        if self.form != 0 {
            let _ = write!(s, " form={}", self.form);
        }
        if self.n != 0 {
            let _ = write!(s, " n={}", self.n);
        }
        if self.m != 0 {
            let _ = write!(s, " m={}", self.m);
        }
        if !self.lit.is_empty() {
            s.push_str(" lit=");
            for b in &self.lit {
                let _ = write!(s, "{:02x}", b);
            }
        }
        if let Some(f) = self.fault {
            let k = match f.kind {
                FaultKind::Alloc => "alloc",
                FaultKind::CbErr => "cberr",
                FaultKind::CbPanic => "cbpanic",
            };
            let _ = write!(s, " fault={}:{}", k, f.k);
        }
        s
    }

    pub fn parse(line: &str) -> Result<Op, String> {
        let mut it = line.split_whitespace();
        let name = it.next().ok_or("empty op line")?;
        let mut op = Op::new(name);
        for tok in it {
            let (k, v) = tok.split_once('=').ok_or_else(|| format!("bad token {tok}"))?;
            let num = || v.parse::<i64>().map_err(|e| format!("{tok}: {e}"));
            match k {
                "a" => op.a = num()? as u8,
                "b" => op.b = num()? as u8,
                "c" => op.c = num()? as u8,
                "dst" => op.dst = num()? as u8,
                "form" => op.form = num()? as u16,
                "n" => op.n = num()?,
                "m" => op.m = num()?,
                "lit" => {
                    if v.len() % 2 != 0 {
                        return Err(format!("odd hex literal in {tok}"));
                    }
                    op.lit = (0..v.len() / 2)
                        .map(|i| u8::from_str_radix(&v[2 * i..2 * i + 2], 16).map_err(|e| e.to_string()))
                        .collect::<Result<_, _>>()?;
                }
                "fault" => {
                    let (kind, kk) = v.split_once(':').ok_or("fault needs kind:k")?;
                    let kind = match kind {
                        "alloc" => FaultKind::Alloc,
                        "cberr" => FaultKind::CbErr,
                        "cbpanic" => FaultKind::CbPanic,
                        _ => return Err(format!("unknown fault kind {kind}")),
                    };
                    op.fault = Some(Fault { kind, k: kk.parse().map_err(|e| format!("{tok}: {e}"))? });
                }
                _ => return Err(format!("unknown key {k}")),
            }
        }
        Ok(op)
    }
}

pub fn ops_to_text(ops: &[Op]) -> String {
    let mut s = String::new();
    for o in ops {
        s.push_str(&o.to_line());
        s.push('\n');
    }
    s
}

pub fn ops_from_text(text: &str) -> Result<Vec<Op>, String> {
    text.lines().map(str::trim).filter(|l| !l.is_empty() && !l.starts_with('#')).map(Op::parse).collect()
}
