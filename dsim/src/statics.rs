//! Read-only bank of values living in static memory (built by dashu's `static_*!` macros).

use dashu_float::{DBig, FBig};
use dashu_int::{IBig, UBig};
use dashu_macros::{static_dbig, static_fbig, static_ibig, static_rbig, static_ubig};
use dashu_ratio::RBig;

pub fn ubank() -> &'static [&'static UBig] {
    static BANK: [&UBig; 11] = [
        static_ubig!(0),
        static_ubig!(1),
        static_ubig!(0xffffffffffffffff),
        static_ubig!(0x1_0000_0000_0000_0000_0000_0000_0000_0001),
        static_ubig!(0xfedcba9876543210_0123456789abcdef_fedcba9876543210),
        static_ubig!(123456789012345678901234567890123456789012345678901234567890123456789012345678901234567890),
        static_ubig!(0x8000000000000000_0000000000000000_0000000000000000_0000000000000000_0000000000000000_0000000000000000_0000000000000000_0000000000000000_0000000000000000_0000000000000001),
        static_ubig!(0x8000000000000000_0000000000000000_0000000000000000_0000000000000000_0000000000000000_0000000000000000_0000000000000000_0000000000000000_0000000000000000_0000000000000003),
        static_ubig!(0xfedcba9876543210_0123456789abcdef_fedcba9876543210_0123456789abcdef_fedcba9876543210_0123456789abcdef_fedcba9876543210_0123456789abcdef),
        // two words (the [lo, hi] arm of the static constructor)
        static_ubig!(0x1_0000_0000_0000_0000),
        static_ubig!(0x8000_0000_0000_0000_0000_0000_0000_0001),
    ];
    &BANK
}

pub fn fbank() -> &'static [&'static FBig] {
    static BANK: [&FBig; 5] = [
        static_fbig!(0),
        static_fbig!(1),
        static_fbig!(-0x18p-7),
        static_fbig!(0x5a4653ca673768565b41f775d6947d55cf3813d1p-200),
        static_fbig!(-0xfedcba9876543210_0123456789abcdef_fedcba9876543210_0123456789abcdefp70),
    ];
    &BANK
}

pub fn dbank() -> &'static [&'static DBig] {
    static BANK: [&DBig; 5] = [
        static_dbig!(0),
        static_dbig!(1),
        static_dbig!(-1.25e-3),
        static_dbig!(515377520732011331036461129765621272702107522001e-100),
        static_dbig!(-123456789012345678901234567890123456789012345678901234567890123456789012345678901234567890e12),
    ];
    &BANK
}

pub fn rbank() -> &'static [&'static RBig] {
    static BANK: [&RBig; 9] = [
        static_rbig!(0),
        static_rbig!(1),
        static_rbig!(-1234567890123456789 / 9876543210987654323),
        static_rbig!(-2 / 9876543210987654323),
        static_rbig!(-123456789012345678901234567 / 987654321098765432109876543),
        static_rbig!(123456789012345678901234567890123456789012345678901234567890123456789012345678901234567891 / 1000000000000000000000000000000000000000000000000000000000000000000000007),
        // literals that are not in lowest terms as written (odd and even common factors)
        static_rbig!(3 / 9),
        static_rbig!(-35 / 21),
        static_rbig!(370370367037037036703703703670 / 29629629362962962936296296293600),
    ];
    &BANK
}

pub fn ibank() -> &'static [&'static IBig] {
    static BANK: [&IBig; 8] = [
        static_ibig!(0),
        static_ibig!(-1),
        static_ibig!(-0xffffffffffffffff),
        static_ibig!(-0x1_0000_0000_0000_0000_0000_0000_0000_0001),
        static_ibig!(0xfedcba9876543210_0123456789abcdef_fedcba9876543210),
        static_ibig!(-123456789012345678901234567890123456789012345678901234567890123456789012345678901234567890),
        static_ibig!(-0x8000000000000000_0000000000000000_0000000000000000_0000000000000000_0000000000000000_0000000000000000_0000000000000000_0000000000000000_0000000000000000_0000000000000001),
        static_ibig!(-0x8000000000000000_0000000000000000_0000000000000000_0000000000000000_0000000000000000_0000000000000000_0000000000000000_0000000000000000_0000000000000000_0000000000000005),
    ];
    &BANK
}

/// Register the address ranges of the bank with the layout oracle.
pub fn register() {
    for v in ubank() {
        if v.as_words().len() > 2 {
            crate::view::register_static(v.as_words());
        }
    }
    for v in ibank() {
        let (_, w) = v.as_sign_words();
        if w.len() > 2 {
            crate::view::register_static(w);
        }
    }
    let mut reg_i = |v: &IBig| {
        let (_, w) = v.as_sign_words();
        if w.len() > 2 {
            crate::view::register_static(w);
        }
    };
    for v in fbank() {
        reg_i(v.repr().significand());
    }
    for v in dbank() {
        reg_i(v.repr().significand());
    }
    for v in rbank() {
        reg_i(v.numerator());
        if v.denominator().as_words().len() > 2 {
            crate::view::register_static(v.denominator().as_words());
        }
    }
}
