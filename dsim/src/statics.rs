//! Read-only bank of values living in static memory (built by dashu's `static_*!` macros).

use dashu_int::{IBig, UBig};
use dashu_macros::{static_ibig, static_ubig};

pub fn ubank() -> &'static [&'static UBig] {
    static BANK: [&UBig; 9] = [
        static_ubig!(0),
        static_ubig!(1),
        static_ubig!(0xffffffffffffffff),
        static_ubig!(0x1_0000_0000_0000_0000_0000_0000_0000_0001),
        static_ubig!(0xfedcba9876543210_0123456789abcdef_fedcba9876543210),
        static_ubig!(123456789012345678901234567890123456789012345678901234567890123456789012345678901234567890),
        static_ubig!(0x8000000000000000_0000000000000000_0000000000000000_0000000000000000_0000000000000000_0000000000000000_0000000000000000_0000000000000000_0000000000000000_0000000000000001),
        static_ubig!(0x8000000000000000_0000000000000000_0000000000000000_0000000000000000_0000000000000000_0000000000000000_0000000000000000_0000000000000000_0000000000000000_0000000000000003),
        static_ubig!(0xfedcba9876543210_0123456789abcdef_fedcba9876543210_0123456789abcdef_fedcba9876543210_0123456789abcdef_fedcba9876543210_0123456789abcdef),
    ];
    &BANK
}

pub fn ibank() -> &'static [&'static IBig] {
    static BANK: [&IBig; 8] = [
        static_ibig!(0),
        static_ibig!(-1),
        static_ibig!(-0xffffffffffffffff),
        static_ibig!(-0x1_0000_0000_0000_0000_0000_0000_0000_0001),
        static_ibig!(0xfedcba9876543210_0123456789abcdef_fedcba9876543210),
        static_ibig!(-123456789012345678901234567890123456789012345678901234567890123456789012345678901234567890),
        static_ibig!(-0x8000000000000000_0000000000000000_0000000000000000_0000000000000000_0000000000000000_0000000000000000_0000000000000000_0000000000000000_0000000000000000_0000000000000001),
        static_ibig!(-0x8000000000000000_0000000000000000_0000000000000000_0000000000000000_0000000000000000_0000000000000000_0000000000000000_0000000000000000_0000000000000000_0000000000000005),
    ];
    &BANK
}

/// Register the address ranges of the bank with the layout oracle.
pub fn register() {
    for v in ubank() {
        if v.as_words().len() > 2 {
            crate::view::register_static(v.as_words());
        }
    }
    for v in ibank() {
        let (_, w) = v.as_sign_words();
        if w.len() > 2 {
            crate::view::register_static(w);
        }
    }
}
