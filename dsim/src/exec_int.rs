//! Executor: UBig / IBig / mixed / primitive / modular-ring operations.

use crate::ops::{FaultKind, Op};
use crate::statics;
use crate::view::*;
use crate::world::*;
use dashu_base::CubicRootRem as _CRR;
use dashu_base::{
    Abs, BitTest, CubicRoot, DivEuclid, DivRem, DivRemAssign, DivRemEuclid, EstimatedLog2, ExtendedGcd, Gcd,
    PowerOfTwo, RemEuclid, Sign, Signed, SquareRoot, SquareRootRem, UnsignedAbs,
};
use dashu_int::{fast_div::ConstDivisor, IBig, UBig, Word};
use std::fmt::Write as _;

fn lit_ubig(op: &Op) -> UBig {
    let lit = &op.lit;
    match (op.form & 255) % 7 {
        0 => UBig::from_le_bytes(lit),
        1 => {
            let mut be = untracked(|| lit.clone());
            be.reverse();
            let r = UBig::from_be_bytes(&be);
            untracked(|| drop(be));
            r
        }
        2 => {
            let words = untracked(|| {
                let mut w = words_from_le_bytes(lit);
                for _ in 0..(op.n.clamp(0, 6)) {
                    w.push(0);
                }
                w
            });
            let r = UBig::from_words(&words);
            untracked(|| drop(words));
            r
        }
        3 => {
            let s = untracked(|| {
                let mut s = String::with_capacity(lit.len() * 2 + 1);
                for b in lit.iter().rev() {
                    let _ = write!(s, "{:02x}", b);
                }
                if s.is_empty() {
                    s.push('0');
                }
                s
            });
            let r = UBig::from_str_radix(&s, 16).unwrap();
            untracked(|| drop(s));
            r
        }
        4 => {
            if lit.len() <= 16 {
                let mut b = [0u8; 16];
                b[..lit.len()].copy_from_slice(lit);
                let v = u128::from_le_bytes(b);
                if lit.len() <= 8 {
                    UBig::from(v as u64)
                } else {
                    UBig::from(v)
                }
            } else {
                UBig::from_le_bytes(lit)
            }
        }
        5 => {
            // assemble from 3-byte chunks
            let chunks = untracked(|| Vec::<UBig>::with_capacity(lit.len() / 3 + 1));
            let mut chunks = chunks;
            for c in lit.chunks(3) {
                let v = UBig::from_le_bytes(c);
                chunks.push(v); // capacity reserved untracked; push does not allocate
            }
            let r = UBig::from_chunks(chunks.iter(), 24);
            drop_vec_tracked(chunks);
            r
        }
        _ => {
            // bit by bit through set_bit on a growing value (exercises ensure_capacity)
            let mut r = UBig::ZERO;
            let total = lit.len() * 8;
            for k in (0..total).rev() {
                if lit[k / 8] >> (k % 8) & 1 == 1 {
                    r.set_bit(k);
                }
            }
            r
        }
    }
}

/// drop the elements tracked (dashu frees) but the Vec's own buffer untracked (harness allocation)
fn drop_vec_tracked<T>(mut v: Vec<T>) {
    v.clear();
    untracked(|| drop(v));
}

fn lit_ibig(op: &Op) -> IBig {
    let neg = op.m & 1 == 1;
    let sign = if neg { Sign::Negative } else { Sign::Positive };
    match ((op.form & 255) / 7) % 3 {
        0 => IBig::from_parts(sign, lit_ubig(op)),
        1 => {
            let u = lit_ubig(op);
            let i = IBig::from(u);
            if neg {
                -i
            } else {
                i
            }
        }
        _ => lit_ubig(op) * sign,
    }
}

fn shl_ok(bits: usize, n: i64) -> bool {
    n >= 0 && (n as usize) <= GUARD_BITS && bits + n as usize <= GUARD_BITS
}

pub fn exec_u(w: &mut World, op: &Op, rest: &str, env: &mut Env) {
    let (a, b, dst) = (ix(op.a), ix(op.b), ix(op.dst));
    let take = op.form & 256 != 0;
    let form = op.form & 255;
    match rest {
        "lit" => {
            w.u[dst] = lit_ubig(op);
            env.res(Pool::U, dst);
        }
        "ones" => {
            if op.n < 0 || op.n as usize > GUARD_BITS {
                return env.skip();
            }
            w.u[dst] = UBig::ones(op.n as usize);
            env.res(Pool::U, dst);
        }
        "static" => {
            let bank = statics::ubank();
            let s = bank[op.n.unsigned_abs() as usize % bank.len()];
            match form % 3 {
                0 => w.u[dst] = s.clone(),
                1 => w.u[dst].clone_from(s),
                _ => w.u[dst] = s + UBig::ZERO,
            }
            env.res(Pool::U, dst);
        }
        "big" => {
            // macro-step on operands far above the pool cap, built and consumed inside the step: the size classes that
            // select Toom-3 multiplication, divide-and-conquer division, the double-word Lehmer guess, recursive
            // parsing, long exponentiation loops. Only a digest of the result (value mod M, M ~ 2^3999) enters the pool.
            if cfg!(miri) {
                return env.skip();
            }
            let m_digest = (UBig::ONE << 3999) + UBig::from(0x1234567u32);
            let f = form;
            let sz = op.m.unsigned_abs() as usize;
            // a value of exactly `bits` bits whose content comes from a pool value
            let wide = |seed: &UBig, bits: usize| -> UBig {
                // the seed's bit pattern repeated over the whole width (dense top words), top bit set
                let pat = (seed & UBig::ones(bits.min(4096))) | UBig::ONE;
                let step = pat.bit_len() + (bits % 3);
                let mut v = pat.clone();
                while v.bit_len() < bits {
                    v = (&v << step) ^ &pat;
                }
                (v & UBig::ones(bits - 1)) | (UBig::ONE << (bits - 1))
            };
            let r: UBig = match op.n.unsigned_abs() % 7 {
                0 => {
                    // product of two long operands (smaller one >= 193 words in every build for sz % 3 == 0)
                    let (bx, by) = match sz % 3 {
                        0 => (12400 + sz % 3000, 12400 + (sz / 7) % 3000),
                        1 => (6200 + sz % 3000, 6200 + (sz / 7) % 1500),
                        _ => (14000 + sz % 2000, 3000 + (sz / 7) % 9000),
                    };
                    let (x, y) = (wide(&w.u[a], bx), wide(&w.u[b], by));
                    match f % 4 {
                        0 => &x * &y,
                        1 => x.clone() * y.clone(),
                        2 => {
                            let mut t = x.clone();
                            t *= &y;
                            t
                        }
                        _ => &y * x,
                    }
                }
                1 => {
                    let x = wide(&w.u[a], if sz % 2 == 0 { 12400 + sz % 3900 } else { 6200 + sz % 3000 });
                    match f % 4 {
                        0 => x.sqr(),
                        1 => &x * &x,
                        2 => x.pow(2),
                        _ => {
                            let mut t = x.clone();
                            t *= x;
                            t
                        }
                    }
                }
                2 => {
                    // long division: divisor of 33..100 words, dividend longer than it by more than 32 words
                    let d = wide(&w.u[b], 2112 + sz % 4300);
                    let x = wide(&w.u[a], d.bit_len() + 2200 + (sz / 5) % 6000) + &w.u[ix(op.c)];
                    let (q, r) = match f % 5 {
                        0 => (&x).div_rem(&d),
                        1 => (&x / &d, &x % &d),
                        2 => {
                            let mut t = x.clone();
                            let r = t.div_rem_assign(&d);
                            (t, r)
                        }
                        3 => {
                            let ring = ConstDivisor::new(d.clone());
                            (&x).div_rem(&ring)
                        }
                        _ => x.clone().div_rem(d.clone()),
                    };
                    env.emit_ubig("r", &(&r % &m_digest));
                    env.emit_u64("rbits", r.bit_len() as u64);
                    q
                }
                3 => {
                    // gcd of operands with a planted common factor, >= 300 words in every build for sz % 2 == 0
                    let g0 = (&w.u[ix(op.c)] & UBig::ones(500)) | UBig::ONE;
                    let bits = if sz % 2 == 0 { 19300 + sz % 3000 } else { 9700 + sz % 3000 };
                    let (x, y) = (&g0 * wide(&w.u[a], bits), &g0 * wide(&w.u[b], bits - 100 - sz % 700));
                    match f % 4 {
                        0 => (&x).gcd(&y),
                        1 => x.clone().gcd(y.clone()),
                        2 => (&y).gcd(&x),
                        _ => {
                            let (g, s, t) = (&x).gcd_ext(&y);
                            // Bezout identity (the coefficients themselves may legitimately differ between builds)
                            let ok = IBig::from(x.clone()) * s + IBig::from(y.clone()) * t == IBig::from(g.clone());
                            if !ok && !env.forms_oracle {
                                // information only (transcripts): the identity is not a call-form matter, and
                                // gcd_ext(2^12096, 2^11299 + 3*2^766 + 3) is known to break it (DESIGN, Appendix A)
                                env.emit_u64("bezout_broken", 1);
                            }
                            g
                        }
                    }
                }
                4 => {
                    // print and parse back a number whose digit count is beyond the recursive-parsing threshold
                    let bits = match sz % 3 {
                        0 => 16300 + sz % 1500,
                        1 => 7750 + sz % 900,
                        _ => 4000 + sz % 12000,
                    };
                    let x = wide(&w.u[a], bits);
                    let radix = [10u32, 3, 36, 7, 16, 10][(sz / 3) % 6];
                    let text = x.in_radix(radix).to_string();
                    env.emit_u64("digits", text.len() as u64);
                    let y = match f % 2 {
                        0 => UBig::from_str_radix(&text, radix),
                        _ => IBig::from_str_radix(&text, radix).map(|v| v.unsigned_abs()),
                    };
                    drop(text);
                    match y {
                        Ok(y) => {
                            env.emit_u64("same", (y == x) as u64);
                            y
                        }
                        Err(_) => {
                            env.emit_u64("refused", 1);
                            UBig::ZERO
                        }
                    }
                }
                5 => {
                    // long exponentiation loops: small base, large exponent
                    let base = (&w.u[a] & UBig::ones(1 + sz % 40)) | UBig::from(2u8);
                    let exp = [6usize, 17, 63, 64, 65, 70, 127, 128, 257, 500][(sz / 41) % 10];
                    if base.bit_len() * exp > GUARD_BITS {
                        return env.skip();
                    }
                    match f % 2 {
                        0 => base.pow(exp),
                        _ => {
                            let mut t = UBig::ONE;
                            for _ in 0..exp {
                                t *= &base;
                            }
                            t
                        }
                    }
                }
                _ => {
                    // roots of high order (Newton loop on x.pow(n - 1)) around the bits <= n shortcut
                    let x = &w.u[a];
                    let bl = x.bit_len().max(2);
                    // (orders in between make dashu's Newton iteration overshoot to 2^(n-1) times the root and crawl back
                    // in millions of steps: a termination matter, not judged by this simulator - kept out of the workload)
                    let n = match sz % 6 {
                        0 => 6 + sz % 15,
                        1 => bl - 1,
                        2 => bl,
                        3 => bl + 1,
                        4 => 3 + sz % 4,
                        _ => 7,
                    };
                    if n > 5000 {
                        return env.skip();
                    }
                    let r0 = x.nth_root(n);
                    // defining inequality r^n <= x < (r+1)^n, only where the powers stay small
                    if r0.bit_len() * n <= GUARD_BITS && (r0.bit_len() + 1) * n <= GUARD_BITS {
                        let lo = r0.pow(n);
                        let hi = (&r0 + UBig::ONE).pow(n);
                        env.emit_u64("root_ok", (lo <= *x && *x < hi) as u64);
                    }
                    r0
                }
            };
            env.emit_u64("bits", r.bit_len() as u64);
            w.u[dst] = if r.bit_len() > 3999 { &r % &m_digest } else { r };
            env.res(Pool::U, dst);
        }
        "rand" => {
            // dashu's samplers driven by the simulator's generator
            use dashu_int::rand::{UniformBelow, UniformBits};
            use rand::{distributions::Distribution, Rng};
            let bits = [0usize, 1, 63, 64, 65, 127, 128, 129, 192, 200, 700, 3000][(op.n.unsigned_abs() % 12) as usize];
            let (lo, hi) = if w.u[a] <= w.u[b] { (w.u[a].clone(), w.u[b].clone()) } else { (w.u[b].clone(), w.u[a].clone()) };
            let (ilo, ihi) = if w.i[a] <= w.i[b] { (w.i[a].clone(), w.i[b].clone()) } else { (w.i[b].clone(), w.i[a].clone()) };
            let mut rng = SimRng { state: (op.m as u64) | 1, mode: (op.m.unsigned_abs() >> 20) as u8, env: &mut *env };
            enum Out {
                U(UBig, bool),
                I(IBig, bool),
            }
            let out = match form % 8 {
                0 => {
                    let v: UBig = UniformBits::new(bits).sample(&mut rng);
                    let ok = v.bit_len() <= bits;
                    Out::U(v, ok)
                }
                1 => {
                    let v: IBig = UniformBits::new(bits).sample(&mut rng);
                    let ok = v.bit_len() <= bits;
                    Out::I(v, ok)
                }
                2 => {
                    if hi.is_zero() {
                        return env.skip();
                    }
                    let v: UBig = UniformBelow::new(&hi).sample(&mut rng);
                    let ok = v < hi;
                    Out::U(v, ok)
                }
                3 => {
                    if hi.is_zero() {
                        return env.skip();
                    }
                    let v: IBig = UniformBelow::new(&hi).sample(&mut rng);
                    let ok = v.clone().unsigned_abs() < hi;
                    Out::I(v, ok)
                }
                // empty ranges panic (documented)
                4 => {
                    let v: UBig = rng.gen_range(lo.clone()..hi.clone());
                    let ok = lo <= v && v < hi;
                    Out::U(v, ok)
                }
                5 => {
                    let v: UBig = rng.gen_range(lo.clone()..=hi.clone());
                    let ok = lo <= v && v <= hi;
                    Out::U(v, ok)
                }
                6 => {
                    let v: IBig = rng.gen_range(ilo.clone()..ihi.clone());
                    let ok = ilo <= v && v < ihi;
                    Out::I(v, ok)
                }
                _ => {
                    let v: IBig = rng.gen_range(ilo.clone()..=ihi.clone());
                    let ok = ilo <= v && v <= ihi;
                    Out::I(v, ok)
                }
            };
            match out {
                Out::U(v, ok) => {
                    env.emit_u64("in_range", ok as u64);
                    w.u[dst] = v;
                    env.res(Pool::U, dst);
                }
                Out::I(v, ok) => {
                    env.emit_u64("in_range", ok as u64);
                    w.i[dst] = v;
                    env.res(Pool::I, dst);
                }
            }
        }
        "sparse" => {
            // a few set bits far apart (rounding edges: sticky bits, ties, leading 1000..0 patterns of the estimators)
            let mut x = op.n as u64;
            let mut next = || {
                x ^= x << 13;
                x ^= x >> 7;
                x ^= x << 17;
                x
            };
            let top = [17usize, 24, 25, 32, 33, 53, 54, 63, 64, 65, 96, 127, 128, 129, 160, 161, 200, 300][(next() % 18) as usize];
            let mut v = UBig::ONE << top;
            for _ in 0..(op.m.unsigned_abs() % 4) {
                let pos = match next() % 4 {
                    0 => top.saturating_sub(1 + (next() % 3) as usize),
                    1 => top.saturating_sub(16 + (next() % 18) as usize),
                    2 => top.saturating_sub(23 + (next() % 12) as usize),
                    _ => (next() as usize) % top.max(1),
                };
                v |= UBig::ONE << pos;
            }
            if form % 2 == 1 {
                v -= UBig::ONE;
            }
            // rounding edges of the conversions to f32 / f64: a tie at the last kept bit, decided (or not) by one
            // sticky bit just below what the first extraction step looks at
            let j = (next() % 4) as usize;
            match op.m.unsigned_abs() % 8 {
                4 if top >= 40 => v = (UBig::ONE << top) | (UBig::ONE << (top - 24)) | (UBig::ONE << (top - 31 - j)),
                5 if top >= 70 => v = (UBig::ONE << top) | (UBig::ONE << (top - 53)) | (UBig::ONE << (top - 63 - j.min(top - 63))),
                6 if top >= 60 => v = (UBig::ONE << top) | (UBig::ONE << (top - 24 - 29 * (j % 2))),
                7 if top >= 40 => v = (UBig::ONE << top) | (UBig::ONE << (top - 23)) | (UBig::ONE << (top - 24)) | (UBig::ONE << (top - 31 - j)),
                _ => {}
            }
            let f = v.to_f32();
            env.emit_u64("v32", matches!(f, dashu_base::Approximation::Exact(_)) as u64);
            env.emit_f32("f32", f.value());
            let f = v.to_f64();
            env.emit_u64("v64", matches!(f, dashu_base::Approximation::Exact(_)) as u64);
            env.emit_f64("f64", f.value());
            // the estimator's special cases sit at leading patterns like 1000..0: the bounds must bracket the value
            let (lo, hi) = v.log2_bounds();
            env.emit_u64("log2in", log2_bounds_hold(&v, lo, hi) as u64);
            let (lo, hi) = (&v + UBig::ONE).log2_bounds();
            env.emit_u64("log2in1", log2_bounds_hold(&(&v + UBig::ONE), lo, hi) as u64);
            w.u[dst] = v;
            env.res(Pool::U, dst);
        }
        "pow2" => {
            if !shl_ok(1, op.n) {
                return env.skip();
            }
            w.u[dst] = UBig::ONE << op.n as usize;
            env.res(Pool::U, dst);
        }
        "add" => binop_forms!(w, env, op, u, Pool::U, +, +=),
        "sub" => binop_forms!(w, env, op, u, Pool::U, -, -=),
        "mul" => binop_forms!(w, env, op, u, Pool::U, *, *=),
        "div" => binop_forms!(w, env, op, u, Pool::U, /, /=),
        "rem" => binop_forms!(w, env, op, u, Pool::U, %, %=),
        "and" => binop_forms!(w, env, op, u, Pool::U, &, &=),
        "or" => binop_forms!(w, env, op, u, Pool::U, |, |=),
        "xor" => binop_forms!(w, env, op, u, Pool::U, ^, ^=),
        "divrem" => {
            let d2 = (dst + 1) % NP;
            let (q, r) = match form % 16 {
                0 => own!(w.u[a], take).div_rem(own!(w.u[b], take)),
                1 => own!(w.u[a], take).div_rem(&w.u[b]),
                2 => {
                    let y = own!(w.u[b], take);
                    (&w.u[a]).div_rem(y)
                }
                3 => (&w.u[a]).div_rem(&w.u[b]),
                4 => {
                    let mut x = own!(w.u[a], take);
                    let r = x.div_rem_assign(own!(w.u[b], take));
                    (x, r)
                }
                5 => {
                    let mut x = own!(w.u[a], take);
                    let r = x.div_rem_assign(&w.u[b]);
                    (x, r)
                }
                6 => (&w.u[a]).div_rem_euclid(&w.u[b]),
                7 => ((&w.u[a]).div_euclid(&w.u[b]), (&w.u[a]).rem_euclid(&w.u[b])),
                // the operator pair reaches the separate quotient-only / remainder-only routines
                8 => (w.u[a].clone() / w.u[b].clone(), w.u[a].clone() % w.u[b].clone()),
                9 => (w.u[a].clone() / &w.u[b], w.u[a].clone() % &w.u[b]),
                10 => (&w.u[a] / w.u[b].clone(), &w.u[a] % w.u[b].clone()),
                11 => (&w.u[a] / &w.u[b], &w.u[a] % &w.u[b]),
                12 => {
                    let (mut q, mut r) = (w.u[a].clone(), w.u[a].clone());
                    q /= &w.u[b];
                    r %= w.u[b].clone();
                    (q, r)
                }
                13 => w.u[a].clone().div_rem_euclid(w.u[b].clone()),
                14 => (w.u[a].clone().div_euclid(&w.u[b]), (&w.u[a]).rem_euclid(w.u[b].clone())),
                _ => (&w.u[a]).div_rem_euclid(w.u[b].clone()),
            };
            w.u[dst] = q;
            w.u[d2] = r;
            env.res(Pool::U, dst);
            env.res(Pool::U, d2);
        }
        "shl" => {
            if !shl_ok(w.u[a].bit_len(), op.n) {
                return env.skip();
            }
            let n = op.n as usize;
            match form % 7 {
                0 => w.u[dst] = own!(w.u[a], take) << n,
                1 => w.u[dst] = &w.u[a] << n,
                2 => {
                    let mut x = own!(w.u[a], take);
                    x <<= n;
                    w.u[dst] = x;
                }
                // the shift amount by reference
                4 => w.u[dst] = own!(w.u[a], take) << &n,
                5 => w.u[dst] = &w.u[a] << &n,
                6 => {
                    let mut x = own!(w.u[a], take);
                    x <<= &n;
                    w.u[dst] = x;
                }
                _ => {
                    w.u[a] <<= n;
                    return env.res(Pool::U, a);
                }
            }
            env.res(Pool::U, dst);
        }
        "shr" => {
            if op.n < 0 {
                return env.skip();
            }
            let n = op.n as usize;
            match form % 7 {
                0 => w.u[dst] = own!(w.u[a], take) >> n,
                1 => w.u[dst] = &w.u[a] >> n,
                2 => {
                    let mut x = own!(w.u[a], take);
                    x >>= n;
                    w.u[dst] = x;
                }
                // the shift amount by reference
                4 => w.u[dst] = own!(w.u[a], take) >> &n,
                5 => w.u[dst] = &w.u[a] >> &n,
                6 => {
                    let mut x = own!(w.u[a], take);
                    x >>= &n;
                    w.u[dst] = x;
                }
                _ => {
                    w.u[a] >>= n;
                    return env.res(Pool::U, a);
                }
            }
            env.res(Pool::U, dst);
        }
        "pow" => {
            if op.n < 0 || w.u[a].bit_len().saturating_mul(op.n as usize) > GUARD_BITS {
                return env.skip();
            }
            w.u[dst] = w.u[a].pow(op.n as usize);
            env.res(Pool::U, dst);
        }
        "sqr" => {
            w.u[dst] = w.u[a].sqr();
            env.res(Pool::U, dst);
        }
        "cubic" => {
            w.u[dst] = w.u[a].cubic();
            env.res(Pool::U, dst);
        }
        "sqrt" => {
            w.u[dst] = match form % 3 {
                0 => w.u[a].sqrt(),
                1 => SquareRoot::sqrt(&w.u[a]),
                _ => w.u[a].sqrt_rem().0,
            };
            env.res(Pool::U, dst);
        }
        "sqrtrem" => {
            let d2 = (dst + 1) % NP;
            let (s, r) = w.u[a].sqrt_rem();
            w.u[dst] = s;
            w.u[d2] = r;
            env.res(Pool::U, dst);
            env.res(Pool::U, d2);
        }
        "cbrt" => {
            w.u[dst] = match form % 3 {
                0 => w.u[a].cbrt(),
                1 => w.u[a].nth_root(3),
                _ => w.u[a].cbrt_rem().0,
            };
            env.res(Pool::U, dst);
        }
        "root" => {
            if op.n < 0 {
                return env.skip();
            }
            w.u[dst] = w.u[a].nth_root(op.n as usize);
            env.res(Pool::U, dst);
        }
        "gcd" => {
            w.u[dst] = match form % 4 {
                0 => own!(w.u[a], take).gcd(own!(w.u[b], take)),
                1 => own!(w.u[a], take).gcd(&w.u[b]),
                2 => {
                    let y = own!(w.u[b], take);
                    (&w.u[a]).gcd(y)
                }
                _ => (&w.u[a]).gcd(&w.u[b]),
            };
            env.res(Pool::U, dst);
        }
        "gcdext" => {
            let d2 = (dst + 1) % NP;
            let (g, x, y) = match form % 4 {
                0 => own!(w.u[a], take).gcd_ext(own!(w.u[b], take)),
                1 => own!(w.u[a], take).gcd_ext(&w.u[b]),
                2 => {
                    let y = own!(w.u[b], take);
                    (&w.u[a]).gcd_ext(y)
                }
                _ => (&w.u[a]).gcd_ext(&w.u[b]),
            };
            w.u[dst] = g;
            w.i[dst] = x;
            w.i[d2] = y;
            env.res(Pool::U, dst);
            env.res(Pool::I, dst);
            env.res(Pool::I, d2);
        }
        "setbit" => {
            if op.n < 0 || (op.n as usize > GUARD_BITS && op.m == 0) {
                return env.skip();
            }
            // m != 0: absurd index on purpose (documented "too much memory" panic or allocator refusal)
            w.u[a].set_bit(op.n as usize);
            env.res(Pool::U, a);
        }
        "huge" => {
            // absurd sizes on purpose: every route must end in the documented "too much memory" panic or an allocator
            // refusal (a panic), never in a wrapped size computation
            if cfg!(miri) {
                return env.skip();
            }
            let k = op.n.unsigned_abs() as usize % 4000;
            let big = match op.m.unsigned_abs() % 4 {
                0 => usize::MAX - k,
                1 => (1usize << 40) + k,
                2 => usize::MAX / 2 + k,
                _ => (1usize << 36) + 64 * k,
            };
            let x = own!(w.u[a], take);
            let r: UBig = match form % 7 {
                0 => {
                    if x.is_zero() {
                        UBig::ONE << big
                    } else {
                        x << big
                    }
                }
                1 => UBig::ones(big),
                2 => {
                    let mut t = x | UBig::ONE;
                    t <<= big;
                    t
                }
                3 => UBig::from_chunks(w.u.iter().chain(core::iter::once(&UBig::ONE)), big),
                4 => UBig::ones(big) + x,
                5 => IBig::from(x | UBig::ONE).unsigned_abs() << &big,
                _ => {
                    let mut t = x;
                    t.set_bit(big);
                    t
                }
            };
            // (not reached in a correct library)
            env.emit_u64("returned_bits", r.bit_len() as u64);
            w.u[dst] = UBig::ZERO;
            env.res(Pool::U, dst);
        }
        "clearbit" => {
            if op.n < 0 {
                return env.skip();
            }
            w.u[a].clear_bit(op.n as usize);
            env.res(Pool::U, a);
        }
        "clearhigh" => {
            if op.n < 0 {
                return env.skip();
            }
            w.u[a].clear_high_bits(op.n as usize);
            env.res(Pool::U, a);
        }
        "splitbits" => {
            if op.n < 0 {
                return env.skip();
            }
            let d2 = (dst + 1) % NP;
            let (lo, hi) = own!(w.u[a], take).split_bits(op.n as usize);
            w.u[dst] = lo;
            w.u[d2] = hi;
            env.res(Pool::U, dst);
            env.res(Pool::U, d2);
        }
        "nextpow2" => {
            w.u[dst] = own!(w.u[a], take).next_power_of_two();
            env.res(Pool::U, dst);
        }
        "remove" => {
            let f = w.u[b].clone();
            let e = w.u[a].remove(&f);
            env.emit_opt("exp", e);
            env.res(Pool::U, a);
        }
        "clone" => {
            let c = w.u[a].clone();
            w.u[dst] = c;
            env.res(Pool::U, dst);
        }
        "clonefrom" => {
            if a == dst {
                let c = w.u[a].clone();
                w.u[dst].clone_from(&c);
            } else {
                let (d, s) = two_mut(&mut w.u, dst, a);
                d.clone_from(s);
            }
            env.res(Pool::U, dst);
        }
        "take" => {
            let v = core::mem::take(&mut w.u[a]);
            w.u[dst] = v;
            env.res(Pool::U, dst);
        }
        "swap" => {
            w.u.swap(a, b);
            env.res(Pool::U, a);
            env.res(Pool::U, b);
        }
        "drop" => {
            w.u[a] = UBig::ZERO;
            env.res(Pool::U, a);
        }
        "parse" => {
            let radix = [10u32, 16, 2, 8, 36, 7, 10, 3][(op.n.unsigned_abs() % 8) as usize];
            let t = mutated_text(&w.u[a], false, radix, op.m.unsigned_abs(), op.n.unsigned_abs() as usize / 8);
            let r = match form % 4 {
                0 => UBig::from_str_radix(&t, radix).map(|v| (v, radix)),
                1 => t.parse::<UBig>().map(|v| (v, 10)),
                2 => UBig::from_str_with_radix_prefix(&t),
                _ => UBig::from_str_with_radix_default(&t, radix),
            };
            drop(t);
            match r {
                Ok((v, rdx)) => {
                    env.emit_u64("radix", rdx as u64);
                    w.u[dst] = v;
                    env.res(Pool::U, dst);
                }
                Err(_) => env.emit_u64("refused", 1),
            }
        }
        "str" => {
            let radix = (op.n.unsigned_abs() % 35 + 2) as u32;
            let s = match form % 3 {
                0 => w.u[a].in_radix(radix).to_string(),
                1 => format!("{:#}", w.u[a].in_radix(radix)),
                _ => format!("{:+}", w.u[a].in_radix(radix)),
            };
            env.emit_str("s", &s);
            w.u[dst] = UBig::from_str_radix(s.trim_start_matches('+'), radix).unwrap();
            env.res(Pool::U, dst);
        }
        "fmt" => {
            let radix = (op.n.unsigned_abs() % 35 + 2) as u32;
            let v = &w.u[a];
            let mut sink = Sink { env, bytes: 0 };
            let r = match form % 10 {
                0 => write!(sink, "{}", v),
                1 => write!(sink, "{:x}", v),
                2 => write!(sink, "{:#X}", v),
                3 => write!(sink, "{:b}", v),
                4 => write!(sink, "{:#o}", v),
                5 => write!(sink, "{:?}", v),
                6 => write!(sink, "{:#?}", v),
                7 => write!(sink, "{:>+40}", v),
                8 => write!(sink, "{}", v.in_radix(radix)),
                _ => write!(sink, "{:#<30}", v.in_radix(radix)),
            };
            let n = sink.bytes;
            env.emit_u64("ok", r.is_ok() as u64);
            env.emit_u64("len", n as u64);
        }
        "bytes" => {
            w.u[dst] = match form % 2 {
                0 => {
                    let b = w.u[a].to_le_bytes();
                    env.emit_bytes("le", &b);
                    UBig::from_le_bytes(&b)
                }
                _ => {
                    let b = w.u[a].to_be_bytes();
                    env.emit_bytes("be", &b);
                    UBig::from_be_bytes(&b)
                }
            };
            env.res(Pool::U, dst);
        }
        "chunks" => {
            let cb = (op.n.unsigned_abs() as usize % 200) + 1;
            let chunks = w.u[a].to_chunks(cb);
            env.emit_u64("nchunks", chunks.len() as u64);
            for c in chunks.iter().take(6) {
                env.emit_ubig("c", c);
            }
            w.u[dst] = UBig::from_chunks(chunks.iter(), cb);
            env.res(Pool::U, dst);
        }
        "ochunks" => {
            // from_chunks with chunks wider than chunk_bits (documented as allowed): sum(C_i * 2^(i * chunk_bits))
            let cb = [1usize, 7, 31, 32, 33, 63, 64, 65, 96, 128, 1000, 4096][(op.n.unsigned_abs() % 12) as usize];
            let cnt = 1 + (op.m.unsigned_abs() as usize % NP);
            w.u[dst] = match form % 2 {
                0 => UBig::from_chunks(w.u.iter().take(cnt), cb),
                _ => {
                    let mut acc = UBig::ZERO;
                    for (i, c) in w.u.iter().take(cnt).enumerate() {
                        acc += c << (i * cb);
                    }
                    acc
                }
            };
            env.res(Pool::U, dst);
        }
        "query" => {
            let n = op.n.unsigned_abs() as usize % (GUARD_BITS * 2);
            let v = &w.u[a];
            emit_int_queries(env, v.as_ibig(), n);
            env.emit_u64("ones", v.count_ones() as u64);
            env.emit_opt("zeros", v.count_zeros());
            env.emit_opt("t1", v.trailing_ones());
            env.emit_u64("pow2", v.is_power_of_two() as u64);
            env.emit_ord("cmp", v.cmp(&w.u[b]));
            env.emit_u64("eq", (v == &w.u[b]) as u64);
            env.emit_u64("lownz", v.as_ibig().bit_len().min(1) as u64);
            let f = v.to_f64();
            env.emit_u64("v64", matches!(f, dashu_base::Approximation::Exact(_)) as u64);
            env.emit_f64("f64", f.value());
            let f = v.to_f32();
            env.emit_u64("v32", matches!(f, dashu_base::Approximation::Exact(_)) as u64);
            env.emit_f32("f32", f.value());
            env.emit_u64("u64", u64::try_from(v).unwrap_or(u64::MAX));
            env.emit_u64("u8ok", u8::try_from(v).is_ok() as u64);
            env.emit_u64("i128ok", i128::try_from(v).is_ok() as u64);
            let (lo, hi) = v.log2_bounds();
            env.emit_u64("log2ok", (lo <= hi) as u64);
            env.emit_u64("log2in", log2_bounds_hold(&v.clone().unsigned_abs_ubig(), lo, hi) as u64);
            if !w.u[a].is_zero() && w.u[b] > UBig::ONE {
                env.emit_u64("ilog", w.u[a].ilog(&w.u[b]) as u64);
            }
        }
        "hash" => {
            let h = sim_hash(&w.u[a]);
            let h2 = sim_hash(&w.u[b]);
            env.emit_u64("heq", (h == h2) as u64);
        }
        "sum" => {
            w.u[dst] = match form % 6 {
                4 => w.u.iter().fold(UBig::ZERO, |acc, v| acc + v),
                5 => {
                    let bits: usize = w.u.iter().map(|v| v.bit_len()).sum();
                    if bits > GUARD_BITS {
                        return env.skip();
                    }
                    w.u.iter().fold(UBig::ONE, |acc, v| acc * v)
                }
                0 => w.u.iter().sum(),
                1 => {
                    let items = untracked(|| Vec::with_capacity(NP));
                    let mut items: Vec<UBig> = items;
                    for v in w.u.iter() {
                        items.push(v.clone());
                    }
                    let it = FaultyIter { inner: items.drain(..), env: &mut *env };
                    let r: UBig = it.sum();
                    drop_vec_tracked(items);
                    r
                }
                2 => {
                    let bits: usize = w.u.iter().map(|v| v.bit_len()).sum();
                    if bits > GUARD_BITS {
                        return env.skip();
                    }
                    w.u.iter().product()
                }
                _ => {
                    let bits: usize = w.u.iter().map(|v| v.bit_len()).sum();
                    if bits > GUARD_BITS {
                        return env.skip();
                    }
                    let items = untracked(|| Vec::with_capacity(NP));
                    let mut items: Vec<UBig> = items;
                    for v in w.u.iter() {
                        items.push(v.clone());
                    }
                    let it = FaultyIter { inner: items.drain(..), env: &mut *env };
                    let r: UBig = it.product();
                    drop_vec_tracked(items);
                    r
                }
            };
            env.res(Pool::U, dst);
        }
        "zeroize" => {
            zeroize::Zeroize::zeroize(&mut w.u[a]);
            env.res(Pool::U, a);
        }
        "toi" => {
            w.i[dst] = match form % 2 {
                0 => IBig::from(own!(w.u[a], take)),
                _ => w.u[a].as_ibig().clone(),
            };
            env.res(Pool::I, dst);
        }
        "neg" => {
            // -UBig gives IBig
            w.i[dst] = match form % 2 {
                0 => {
                    let x: UBig = own!(w.u[a], take);
                    -x
                }
                _ => -&w.u[a],
            };
            env.res(Pool::I, dst);
        }
        "mulsign" => {
            let s = if op.n & 1 == 1 { Sign::Negative } else { Sign::Positive };
            let x: UBig = own!(w.u[a], take);
            w.i[dst] = match form % 3 {
                0 => x * s,
                1 => s * x,
                _ => IBig::from(x) * s,
            };
            env.res(Pool::I, dst);
        }
        "rt" => {
            // re-derivation: produce the value of u[a] again by another route, into dst
            let k = lit_small(op);
            let s = (op.n.unsigned_abs() as usize) % 300;
            let v = &w.u[a];
            let r = match form % 14 {
                0 => (v + &k) - &k,
                1 => {
                    if !shl_ok(v.bit_len(), s as i64) {
                        return env.skip();
                    }
                    (v << s) >> s
                }
                2 => {
                    let c = &k + UBig::ONE;
                    v * &c / &c
                }
                3 => {
                    let radix = (s % 35 + 2) as u32;
                    let t = v.in_radix(radix).to_string();
                    UBig::from_str_radix(&t, radix).unwrap()
                }
                4 => UBig::from_le_bytes(&v.to_le_bytes()),
                5 => {
                    let words = untracked(|| {
                        let mut x = v.as_words().to_vec();
                        x.extend_from_slice(&[0, 0, 0][..s % 4]);
                        x
                    });
                    let r = UBig::from_words(&words);
                    untracked(|| drop(words));
                    r
                }
                6 => {
                    let (lo, hi) = v.clone().split_bits(s);
                    (hi << s) | lo
                }
                7 => {
                    let mut c = k.clone();
                    c.clone_from(v);
                    c
                }
                8 => (v ^ &k) ^ &k,
                9 => UBig::try_from(IBig::from(v.clone())).unwrap(),
                10 => v.sqr().sqrt(),
                11 => v.gcd(v),
                12 => {
                    let cb = s % 100 + 1;
                    let ch = v.to_chunks(cb);
                    UBig::from_chunks(ch.iter(), cb)
                }
                _ => {
                    let (q, r) = v.div_rem(&(&k + UBig::ONE));
                    q * (&k + UBig::ONE) + r
                }
            };
            w.u[dst] = r;
            env.res(Pool::U, dst);
        }
        _ => untracked(|| panic!("dsim: unknown op u.{}", rest)),
    }
}

/// a small-to-medium constant derived from the op's literal (used by re-derivation routes)
fn lit_small(op: &Op) -> UBig {
    UBig::from_le_bytes(&op.lit)
}

/// Random number generator owned by the simulator (the seam behind dashu's `rand` feature): a seeded stream, optionally
/// thinned out (many zero words: results must shrink back to the inline form) or saturated, and a callback fault point
/// on every draw (a panic in the middle of filling a fresh buffer).
pub struct SimRng<'a> {
    pub state: u64,
    pub mode: u8,
    pub env: &'a mut Env,
}
impl<'a> SimRng<'a> {
    fn draw(&mut self) -> u64 {
        if let Some(FaultKind::CbPanic) = self.env.cb_tick() {
            panic!("dsim: rng panic");
        }
        let mut x = self.state;
        x ^= x << 13;
        x ^= x >> 7;
        x ^= x << 17;
        self.state = x;
        let y = x.wrapping_mul(0x2545F4914F6CDD1D);
        match self.mode % 4 {
            1 => y & x.rotate_left(17) & x.rotate_left(31) & x.rotate_left(43),
            2 => {
                if y & 3 == 0 {
                    y
                } else {
                    0
                }
            }
            3 => y | x.rotate_left(21) | x.rotate_left(37),
            _ => y,
        }
    }
}
impl<'a> rand::RngCore for SimRng<'a> {
    fn next_u32(&mut self) -> u32 {
        (self.draw() >> 32) as u32
    }
    fn next_u64(&mut self) -> u64 {
        self.draw()
    }
    fn fill_bytes(&mut self, dest: &mut [u8]) {
        for chunk in dest.chunks_mut(8) {
            let v = self.draw().to_le_bytes();
            chunk.copy_from_slice(&v[..chunk.len()]);
        }
    }
    fn try_fill_bytes(&mut self, dest: &mut [u8]) -> Result<(), rand::Error> {
        self.fill_bytes(dest);
        Ok(())
    }
}

/// Iterator owned by the simulator: may panic midway (fault kind F6).
pub struct FaultyIter<'a, I> {
    pub inner: I,
    pub env: &'a mut Env,
}
impl<'a, I: Iterator> Iterator for FaultyIter<'a, I> {
    type Item = I::Item;
    fn next(&mut self) -> Option<I::Item> {
        match self.env.cb_tick() {
            Some(FaultKind::CbPanic) => panic!("dsim: iterator panic"),
            Some(FaultKind::CbErr) => return None,
            _ => {}
        }
        self.inner.next()
    }
}

pub fn exec_i(w: &mut World, op: &Op, rest: &str, env: &mut Env) {
    let (a, b, dst) = (ix(op.a), ix(op.b), ix(op.dst));
    let take = op.form & 256 != 0;
    let form = op.form & 255;
    match rest {
        "lit" => {
            w.i[dst] = lit_ibig(op);
            env.res(Pool::I, dst);
        }
        "static" => {
            let bank = statics::ibank();
            let s = bank[op.n.unsigned_abs() as usize % bank.len()];
            match form % 3 {
                0 => w.i[dst] = s.clone(),
                1 => w.i[dst].clone_from(s),
                _ => w.i[dst] = s + IBig::ZERO,
            }
            env.res(Pool::I, dst);
        }
        "bytes_lit" => {
            // two's complement bytes as they come
            w.i[dst] = match form % 2 {
                0 => IBig::from_le_bytes(&op.lit),
                _ => IBig::from_be_bytes(&op.lit),
            };
            env.res(Pool::I, dst);
        }
        "add" => binop_forms!(w, env, op, i, Pool::I, +, +=),
        "sub" => binop_forms!(w, env, op, i, Pool::I, -, -=),
        "mul" => binop_forms!(w, env, op, i, Pool::I, *, *=),
        "div" => binop_forms!(w, env, op, i, Pool::I, /, /=),
        "rem" => binop_forms!(w, env, op, i, Pool::I, %, %=),
        "and" => binop_forms!(w, env, op, i, Pool::I, &, &=),
        "or" => binop_forms!(w, env, op, i, Pool::I, |, |=),
        "xor" => binop_forms!(w, env, op, i, Pool::I, ^, ^=),
        "divrem" => {
            let d2 = (dst + 1) % NP;
            let (q, r) = match form % 11 {
                0 => own!(w.i[a], take).div_rem(own!(w.i[b], take)),
                1 => own!(w.i[a], take).div_rem(&w.i[b]),
                2 => {
                    let y = own!(w.i[b], take);
                    (&w.i[a]).div_rem(y)
                }
                3 => (&w.i[a]).div_rem(&w.i[b]),
                4 => {
                    let mut x = own!(w.i[a], take);
                    let r = x.div_rem_assign(own!(w.i[b], take));
                    (x, r)
                }
                5 => {
                    let mut x = own!(w.i[a], take);
                    let r = x.div_rem_assign(&w.i[b]);
                    (x, r)
                }
                // the operator pair reaches the separate quotient-only / remainder-only routines
                6 => (w.i[a].clone() / w.i[b].clone(), w.i[a].clone() % w.i[b].clone()),
                7 => (w.i[a].clone() / &w.i[b], w.i[a].clone() % &w.i[b]),
                8 => (&w.i[a] / w.i[b].clone(), &w.i[a] % w.i[b].clone()),
                9 => (&w.i[a] / &w.i[b], &w.i[a] % &w.i[b]),
                _ => {
                    let (mut q, mut r) = (w.i[a].clone(), w.i[a].clone());
                    q /= &w.i[b];
                    r %= w.i[b].clone();
                    (q, r)
                }
            };
            w.i[dst] = q;
            w.i[d2] = r;
            env.res(Pool::I, dst);
            env.res(Pool::I, d2);
        }
        "diveuclid" => {
            // quotient in I[dst], remainder (UBig) in U[dst]
            let (q, r) = match form % 8 {
                0 => own!(w.i[a], take).div_rem_euclid(own!(w.i[b], take)),
                1 => own!(w.i[a], take).div_rem_euclid(&w.i[b]),
                2 => {
                    let y = own!(w.i[b], take);
                    (&w.i[a]).div_rem_euclid(y)
                }
                3 => (&w.i[a]).div_rem_euclid(&w.i[b]),
                4 => ((&w.i[a]).div_euclid(&w.i[b]), (&w.i[a]).rem_euclid(&w.i[b])),
                5 => (w.i[a].clone().div_euclid(w.i[b].clone()), w.i[a].clone().rem_euclid(w.i[b].clone())),
                6 => (w.i[a].clone().div_euclid(&w.i[b]), w.i[a].clone().rem_euclid(&w.i[b])),
                _ => ((&w.i[a]).div_euclid(w.i[b].clone()), (&w.i[a]).rem_euclid(w.i[b].clone())),
            };
            w.i[dst] = q;
            w.u[dst] = r;
            env.res(Pool::I, dst);
            env.res(Pool::U, dst);
        }
        "neg" => {
            w.i[dst] = match form % 2 {
                0 => -own!(w.i[a], take),
                _ => -&w.i[a],
            };
            env.res(Pool::I, dst);
        }
        "abs" => {
            w.i[dst] = match form % 2 {
                0 => own!(w.i[a], take).abs(),
                _ => (&w.i[a]).abs(),
            };
            env.res(Pool::I, dst);
        }
        "uabs" => {
            w.u[dst] = match form % 2 {
                0 => own!(w.i[a], take).unsigned_abs(),
                _ => (&w.i[a]).unsigned_abs(),
            };
            env.res(Pool::U, dst);
        }
        "not" => {
            w.i[dst] = match form % 2 {
                0 => !own!(w.i[a], take),
                _ => !&w.i[a],
            };
            env.res(Pool::I, dst);
        }
        "signum" => {
            w.i[dst] = w.i[a].signum();
            env.res(Pool::I, dst);
        }
        "mulsign" => {
            let s = if op.n & 1 == 1 { Sign::Negative } else { Sign::Positive };
            match form % 3 {
                0 => w.i[dst] = own!(w.i[a], take) * s,
                2 => w.i[dst] = s * own!(w.i[a], take),
                _ => {
                    w.i[a] *= s;
                    return env.res(Pool::I, a);
                }
            }
            env.res(Pool::I, dst);
        }
        "shl" => {
            if !shl_ok(w.i[a].bit_len(), op.n) {
                return env.skip();
            }
            let n = op.n as usize;
            match form % 7 {
                0 => w.i[dst] = own!(w.i[a], take) << n,
                1 => w.i[dst] = &w.i[a] << n,
                2 => {
                    let mut x = own!(w.i[a], take);
                    x <<= n;
                    w.i[dst] = x;
                }
                // the shift amount by reference
                4 => w.i[dst] = own!(w.i[a], take) << &n,
                5 => w.i[dst] = &w.i[a] << &n,
                6 => {
                    let mut x = own!(w.i[a], take);
                    x <<= &n;
                    w.i[dst] = x;
                }
                _ => {
                    w.i[a] <<= n;
                    return env.res(Pool::I, a);
                }
            }
            env.res(Pool::I, dst);
        }
        "shr" => {
            if op.n < 0 {
                return env.skip();
            }
            let n = op.n as usize;
            match form % 7 {
                0 => w.i[dst] = own!(w.i[a], take) >> n,
                1 => w.i[dst] = &w.i[a] >> n,
                2 => {
                    let mut x = own!(w.i[a], take);
                    x >>= n;
                    w.i[dst] = x;
                }
                // the shift amount by reference
                4 => w.i[dst] = own!(w.i[a], take) >> &n,
                5 => w.i[dst] = &w.i[a] >> &n,
                6 => {
                    let mut x = own!(w.i[a], take);
                    x >>= &n;
                    w.i[dst] = x;
                }
                _ => {
                    w.i[a] >>= n;
                    return env.res(Pool::I, a);
                }
            }
            env.res(Pool::I, dst);
        }
        "pow" => {
            if op.n < 0 || w.i[a].bit_len().saturating_mul(op.n as usize) > GUARD_BITS {
                return env.skip();
            }
            w.i[dst] = w.i[a].pow(op.n as usize);
            env.res(Pool::I, dst);
        }
        "sqr" => {
            w.u[dst] = w.i[a].sqr();
            env.res(Pool::U, dst);
        }
        "cubic" => {
            w.i[dst] = w.i[a].cubic();
            env.res(Pool::I, dst);
        }
        "sqrt" => {
            w.u[dst] = w.i[a].sqrt();
            env.res(Pool::U, dst);
        }
        "cbrt" => {
            w.i[dst] = match form % 2 {
                0 => w.i[a].cbrt(),
                _ => w.i[a].nth_root(3),
            };
            env.res(Pool::I, dst);
        }
        "root" => {
            if op.n < 0 {
                return env.skip();
            }
            w.i[dst] = w.i[a].nth_root(op.n as usize);
            env.res(Pool::I, dst);
        }
        "gcd" => {
            w.u[dst] = match form % 4 {
                0 => own!(w.i[a], take).gcd(own!(w.i[b], take)),
                1 => own!(w.i[a], take).gcd(&w.i[b]),
                2 => {
                    let y = own!(w.i[b], take);
                    (&w.i[a]).gcd(y)
                }
                _ => (&w.i[a]).gcd(&w.i[b]),
            };
            env.res(Pool::U, dst);
        }
        "gcdext" => {
            let d2 = (dst + 1) % NP;
            let (g, x, y) = match form % 4 {
                0 => own!(w.i[a], take).gcd_ext(own!(w.i[b], take)),
                1 => own!(w.i[a], take).gcd_ext(&w.i[b]),
                2 => {
                    let y = own!(w.i[b], take);
                    (&w.i[a]).gcd_ext(y)
                }
                _ => (&w.i[a]).gcd_ext(&w.i[b]),
            };
            w.u[dst] = g;
            w.i[dst] = x;
            w.i[d2] = y;
            env.res(Pool::U, dst);
            env.res(Pool::I, dst);
            env.res(Pool::I, d2);
        }
        "clone" => {
            let c = w.i[a].clone();
            w.i[dst] = c;
            env.res(Pool::I, dst);
        }
        "clonefrom" => {
            if a == dst {
                let c = w.i[a].clone();
                w.i[dst].clone_from(&c);
            } else {
                let (d, s) = two_mut(&mut w.i, dst, a);
                d.clone_from(s);
            }
            env.res(Pool::I, dst);
        }
        "take" => {
            let v = core::mem::take(&mut w.i[a]);
            w.i[dst] = v;
            env.res(Pool::I, dst);
        }
        "swap" => {
            w.i.swap(a, b);
            env.res(Pool::I, a);
            env.res(Pool::I, b);
        }
        "drop" => {
            w.i[a] = IBig::ZERO;
            env.res(Pool::I, a);
        }
        "parse" => {
            let radix = [10u32, 16, 2, 8, 36, 7, 10, 3][(op.n.unsigned_abs() % 8) as usize];
            let (sign, mag) = (w.i[a].sign(), w.i[a].clone().unsigned_abs());
            let t = mutated_text(&mag, sign == Sign::Negative, radix, op.m.unsigned_abs(), op.n.unsigned_abs() as usize / 8);
            let r = match form % 4 {
                0 => IBig::from_str_radix(&t, radix).map(|v| (v, radix)),
                1 => t.parse::<IBig>().map(|v| (v, 10)),
                2 => IBig::from_str_with_radix_prefix(&t),
                _ => IBig::from_str_with_radix_default(&t, radix),
            };
            drop(t);
            match r {
                Ok((v, rdx)) => {
                    env.emit_u64("radix", rdx as u64);
                    w.i[dst] = v;
                    env.res(Pool::I, dst);
                }
                Err(_) => env.emit_u64("refused", 1),
            }
        }
        "str" => {
            let radix = (op.n.unsigned_abs() % 35 + 2) as u32;
            let s = match form % 2 {
                0 => w.i[a].in_radix(radix).to_string(),
                _ => format!("{:+}", w.i[a].in_radix(radix)),
            };
            env.emit_str("s", &s);
            w.i[dst] = IBig::from_str_radix(&s, radix).unwrap();
            env.res(Pool::I, dst);
        }
        "fmt" => {
            let radix = (op.n.unsigned_abs() % 35 + 2) as u32;
            let v = &w.i[a];
            let mut sink = Sink { env, bytes: 0 };
            let r = match form % 10 {
                0 => write!(sink, "{}", v),
                1 => write!(sink, "{:x}", v),
                2 => write!(sink, "{:#X}", v),
                3 => write!(sink, "{:b}", v),
                4 => write!(sink, "{:#o}", v),
                5 => write!(sink, "{:?}", v),
                6 => write!(sink, "{:#?}", v),
                7 => write!(sink, "{:>+40}", v),
                8 => write!(sink, "{}", v.in_radix(radix)),
                _ => write!(sink, "{:#<30}", v.in_radix(radix)),
            };
            let n = sink.bytes;
            env.emit_u64("ok", r.is_ok() as u64);
            env.emit_u64("len", n as u64);
        }
        "bytes" => {
            w.i[dst] = match form % 2 {
                0 => {
                    let b = w.i[a].to_le_bytes();
                    env.emit_bytes("le", &b);
                    IBig::from_le_bytes(&b)
                }
                _ => {
                    let b = w.i[a].to_be_bytes();
                    env.emit_bytes("be", &b);
                    IBig::from_be_bytes(&b)
                }
            };
            env.res(Pool::I, dst);
        }
        "query" => {
            let n = op.n.unsigned_abs() as usize % (GUARD_BITS * 2);
            let v = &w.i[a];
            emit_int_queries(env, v, n);
            env.emit_opt("t1", v.trailing_ones());
            env.emit_ord("cmp", v.cmp(&w.i[b]));
            env.emit_u64("eq", (v == &w.i[b]) as u64);
            env.emit_u64("pos", v.is_positive() as u64);
            env.emit_u64("neg", v.is_negative() as u64);
            let f = v.to_f64();
            env.emit_u64("v64", matches!(f, dashu_base::Approximation::Exact(_)) as u64);
            env.emit_f64("f64", f.value());
            let f = v.to_f32();
            env.emit_u64("v32", matches!(f, dashu_base::Approximation::Exact(_)) as u64);
            env.emit_f32("f32", f.value());
            env.emit_i64("i64", i64::try_from(v).unwrap_or(i64::MIN));
            env.emit_u64("u8ok", u8::try_from(v).is_ok() as u64);
            env.emit_u64("i128ok", i128::try_from(v).is_ok() as u64);
            env.emit_u64("asu", v.as_ubig().is_some() as u64);
            let (lo, hi) = v.log2_bounds();
            env.emit_u64("log2ok", (lo <= hi) as u64);
            env.emit_u64("log2in", log2_bounds_hold(&v.clone().unsigned_abs_ubig(), lo, hi) as u64);
        }
        "hash" => {
            let h = sim_hash(&w.i[a]);
            let h2 = sim_hash(&w.i[b]);
            env.emit_u64("heq", (h == h2) as u64);
        }
        "sum" => {
            let bits: usize = w.i.iter().map(|v| v.bit_len()).sum();
            if form % 6 % 2 == 1 && bits > GUARD_BITS {
                return env.skip();
            }
            w.i[dst] = match form % 6 {
                0 => w.i.iter().sum(),
                1 => w.i.iter().product(),
                2 => {
                    let items: Vec<IBig> = w.i.iter().cloned().collect();
                    items.into_iter().sum()
                }
                3 => {
                    let items: Vec<IBig> = w.i.iter().cloned().collect();
                    items.into_iter().product()
                }
                4 => w.i.iter().fold(IBig::ZERO, |acc, v| acc + v),
                _ => w.i.iter().fold(IBig::ONE, |acc, v| acc * v),
            };
            env.res(Pool::I, dst);
        }
        "zeroize" => {
            zeroize::Zeroize::zeroize(&mut w.i[a]);
            env.res(Pool::I, a);
        }
        "tou" => {
            // conversion refused for negative values: dst keeps its old value
            match form % 2 {
                0 => {
                    if let Ok(v) = UBig::try_from(own!(w.i[a], take)) {
                        w.u[dst] = v;
                    } else {
                        env.emit_u64("refused", 1);
                    }
                }
                _ => {
                    if let Some(v) = w.i[a].as_ubig() {
                        w.u[dst] = v.clone();
                    } else {
                        env.emit_u64("refused", 1);
                    }
                }
            }
            env.res(Pool::U, dst);
        }
        "parts" => {
            let (s, m) = own!(w.i[a], take).into_parts();
            env.emit_sign("s", s);
            match form % 2 {
                0 => {
                    w.i[dst] = IBig::from_parts(s, m);
                    env.res(Pool::I, dst);
                }
                _ => {
                    w.u[dst] = m;
                    env.res(Pool::U, dst);
                }
            }
        }
        "rt" => {
            let k = IBig::from(lit_small(op)) * if op.m & 1 == 1 { Sign::Negative } else { Sign::Positive };
            let s = (op.n.unsigned_abs() as usize) % 300;
            let v = &w.i[a];
            let r = match form % 12 {
                0 => (v + &k) - &k,
                1 => {
                    if !shl_ok(v.bit_len(), s as i64) {
                        return env.skip();
                    }
                    (v << s) >> s
                }
                2 => {
                    let c = if k.is_zero() { IBig::ONE } else { k.clone() };
                    v * &c / &c
                }
                3 => {
                    let radix = (s % 35 + 2) as u32;
                    let t = v.in_radix(radix).to_string();
                    IBig::from_str_radix(&t, radix).unwrap()
                }
                4 => IBig::from_le_bytes(&v.to_le_bytes()),
                5 => {
                    let (sg, m) = v.clone().into_parts();
                    IBig::from_parts(sg, m)
                }
                6 => -(-v),
                7 => {
                    let mut c = k.clone();
                    c.clone_from(v);
                    c
                }
                8 => (v ^ &k) ^ &k,
                9 => !!v,
                10 => v.clone().unsigned_abs() * v.sign(),
                _ => {
                    let c = if k.is_zero() { IBig::ONE } else { k.clone() };
                    let (q, r) = v.div_rem(&c);
                    q * c + r
                }
            };
            w.i[dst] = r;
            env.res(Pool::I, dst);
        }
        _ => untracked(|| panic!("dsim: unknown op i.{}", rest)),
    }
}

/// IBig (op) UBig and UBig (op) IBig
pub fn exec_mixed(w: &mut World, op: &Op, fam: &str, rest: &str, env: &mut Env) {
    let to_i = |u: &UBig| IBig::from(u.clone());
    if fam == "iu" {
        match rest {
            "add" => mixed_forms!(w, env, op, i, u, Pool::I, +, +=, to_i),
            "sub" => mixed_forms!(w, env, op, i, u, Pool::I, -, -=, to_i),
            "mul" => mixed_forms!(w, env, op, i, u, Pool::I, *, *=, to_i),
            "div" => mixed_forms!(w, env, op, i, u, Pool::I, /, /=, to_i),
            "rem" => mixed_forms!(w, env, op, i, u, Pool::I, %, %=, to_i),
            "and" => {
                // IBig & UBig gives UBig: normalise to IBig
                let (a, b, dst) = (ix(op.a), ix(op.b), ix(op.dst));
                let r: IBig = match (op.form & 255) % 7 {
                    0 => IBig::from(w.i[a].clone() & w.u[b].clone()),
                    1 => IBig::from(w.i[a].clone() & &w.u[b]),
                    2 => IBig::from(&w.i[a] & w.u[b].clone()),
                    3 => IBig::from(&w.i[a] & &w.u[b]),
                    4 => {
                        let mut x = w.i[a].clone();
                        x &= w.u[b].clone();
                        x
                    }
                    5 => {
                        let mut x = w.i[a].clone();
                        x &= &w.u[b];
                        x
                    }
                    _ => &w.i[a] & &to_i(&w.u[b]),
                };
                w.i[dst] = r;
                env.res(Pool::I, dst);
            }
            "or" => mixed_forms!(w, env, op, i, u, Pool::I, |, |=, to_i),
            "xor" => mixed_forms!(w, env, op, i, u, Pool::I, ^, ^=, to_i),
            "divrem" => {
                // IBig.div_rem(UBig) -> (IBig, IBig): trait forms, the operator pair, the convert-first reference
                let (a, b, dst) = (ix(op.a), ix(op.b), ix(op.dst));
                let d2 = (dst + 1) % NP;
                let (q, r): (IBig, IBig) = match (op.form & 255) % 7 {
                    0 => w.i[a].clone().div_rem(w.u[b].clone()),
                    1 => w.i[a].clone().div_rem(&w.u[b]),
                    2 => (&w.i[a]).div_rem(w.u[b].clone()),
                    3 => (&w.i[a]).div_rem(&w.u[b]),
                    4 => (&w.i[a] / &w.u[b], &w.i[a] % &w.u[b]),
                    5 => {
                        let (mut q, mut r) = (w.i[a].clone(), w.i[a].clone());
                        q /= &w.u[b];
                        r %= w.u[b].clone();
                        (q, r)
                    }
                    _ => (&w.i[a]).div_rem(&to_i(&w.u[b])),
                };
                w.i[dst] = q;
                w.i[d2] = r;
                env.res(Pool::I, dst);
                env.res(Pool::I, d2);
            }
            "gcd" => {
                let (a, b, dst) = (ix(op.a), ix(op.b), ix(op.dst));
                let g: UBig = match (op.form & 255) % 5 {
                    0 => w.i[a].clone().gcd(w.u[b].clone()),
                    1 => w.i[a].clone().gcd(&w.u[b]),
                    2 => (&w.i[a]).gcd(w.u[b].clone()),
                    3 => (&w.i[a]).gcd(&w.u[b]),
                    _ => (&w.i[a]).gcd(&to_i(&w.u[b])),
                };
                w.u[dst] = g;
                env.res(Pool::U, dst);
            }
            "gcdext" => {
                let (a, b, dst) = (ix(op.a), ix(op.b), ix(op.dst));
                let d2 = (dst + 1) % NP;
                let (g, s, t): (UBig, IBig, IBig) = match (op.form & 255) % 5 {
                    0 => w.i[a].clone().gcd_ext(w.u[b].clone()),
                    1 => w.i[a].clone().gcd_ext(&w.u[b]),
                    2 => (&w.i[a]).gcd_ext(w.u[b].clone()),
                    3 => (&w.i[a]).gcd_ext(&w.u[b]),
                    _ => (&w.i[a]).gcd_ext(&to_i(&w.u[b])),
                };
                w.u[dst] = g;
                w.i[dst] = s;
                w.i[d2] = t;
                env.res(Pool::U, dst);
                env.res(Pool::I, dst);
                env.res(Pool::I, d2);
            }
            _ => untracked(|| panic!("dsim: unknown op iu.{}", rest)),
        }
    } else {
        // UBig on the left: result IBig (in I[dst]), four ownership forms + reference form
        let (a, b, dst) = (ix(op.a), ix(op.b), ix(op.dst));
        macro_rules! ui {
            ($tr:tt) => {{
                let r: IBig = match (op.form & 255) % 5 {
                    0 => w.u[a].clone() $tr w.i[b].clone(),
                    1 => w.u[a].clone() $tr &w.i[b],
                    2 => &w.u[a] $tr w.i[b].clone(),
                    3 => &w.u[a] $tr &w.i[b],
                    _ => &IBig::from(w.u[a].clone()) $tr &w.i[b],
                };
                w.i[dst] = r;
                env.res(Pool::I, dst);
            }};
        }
        match rest {
            "add" => ui!(+),
            "sub" => ui!(-),
            "mul" => ui!(*),
            "div" => ui!(/),
            "rem" => {
                // UBig % IBig gives UBig in dashu: normalise to IBig for comparison
                let r: IBig = match (op.form & 255) % 7 {
                    0 => IBig::from(w.u[a].clone() % w.i[b].clone()),
                    1 => IBig::from(w.u[a].clone() % &w.i[b]),
                    2 => IBig::from(&w.u[a] % w.i[b].clone()),
                    3 => IBig::from(&w.u[a] % &w.i[b]),
                    5 => {
                        let mut x = w.u[a].clone();
                        x %= w.i[b].clone();
                        IBig::from(x)
                    }
                    6 => {
                        let mut x = w.u[a].clone();
                        x %= &w.i[b];
                        IBig::from(x)
                    }
                    _ => &IBig::from(w.u[a].clone()) % &w.i[b],
                };
                w.i[dst] = r;
                env.res(Pool::I, dst);
            }
            "and" => {
                // UBig & IBig gives UBig (own and_not path for a negative right operand)
                let r: IBig = match (op.form & 255) % 7 {
                    0 => IBig::from(w.u[a].clone() & w.i[b].clone()),
                    1 => IBig::from(w.u[a].clone() & &w.i[b]),
                    2 => IBig::from(&w.u[a] & w.i[b].clone()),
                    3 => IBig::from(&w.u[a] & &w.i[b]),
                    5 => {
                        let mut x = w.u[a].clone();
                        x &= w.i[b].clone();
                        IBig::from(x)
                    }
                    6 => {
                        let mut x = w.u[a].clone();
                        x &= &w.i[b];
                        IBig::from(x)
                    }
                    _ => &IBig::from(w.u[a].clone()) & &w.i[b],
                };
                w.i[dst] = r;
                env.res(Pool::I, dst);
            }
            "divrem" => {
                // UBig.div_rem(IBig) -> (IBig, UBig)
                let (q, r): (IBig, UBig) = match (op.form & 255) % 6 {
                    0 => w.u[a].clone().div_rem(w.i[b].clone()),
                    1 => w.u[a].clone().div_rem(&w.i[b]),
                    2 => (&w.u[a]).div_rem(w.i[b].clone()),
                    3 => (&w.u[a]).div_rem(&w.i[b]),
                    4 => (&w.u[a] / &w.i[b], &w.u[a] % &w.i[b]),
                    _ => {
                        let (q, r) = (&IBig::from(w.u[a].clone())).div_rem(&w.i[b]);
                        // the remainder has the sign of the (non-negative) dividend
                        (q, r.unsigned_abs())
                    }
                };
                w.i[dst] = q;
                w.u[dst] = r;
                env.res(Pool::I, dst);
                env.res(Pool::U, dst);
            }
            "gcd" => {
                let g: UBig = match (op.form & 255) % 5 {
                    0 => w.u[a].clone().gcd(w.i[b].clone()),
                    1 => w.u[a].clone().gcd(&w.i[b]),
                    2 => (&w.u[a]).gcd(w.i[b].clone()),
                    3 => (&w.u[a]).gcd(&w.i[b]),
                    _ => (&IBig::from(w.u[a].clone())).gcd(&w.i[b]),
                };
                w.u[dst] = g;
                env.res(Pool::U, dst);
            }
            "gcdext" => {
                let d2 = (dst + 1) % NP;
                let (g, s, t): (UBig, IBig, IBig) = match (op.form & 255) % 5 {
                    0 => w.u[a].clone().gcd_ext(w.i[b].clone()),
                    1 => w.u[a].clone().gcd_ext(&w.i[b]),
                    2 => (&w.u[a]).gcd_ext(w.i[b].clone()),
                    3 => (&w.u[a]).gcd_ext(&w.i[b]),
                    _ => (&IBig::from(w.u[a].clone())).gcd_ext(&w.i[b]),
                };
                w.u[dst] = g;
                w.i[dst] = s;
                w.i[d2] = t;
                env.res(Pool::U, dst);
                env.res(Pool::I, dst);
                env.res(Pool::I, d2);
            }
            "or" => ui!(|),
            "xor" => ui!(^),
            _ => untracked(|| panic!("dsim: unknown op ui.{}", rest)),
        }
    }
}

// ------------------------------------------------------------------ primitives
/// `up.<opr>` / `ip.<opr>`: big (U[a] / I[a]) with a primitive built from `n` (value) — the form selects
/// primitive type (form / 16) and call variant (form % 16). Result normalised to IBig in I[dst].
pub fn exec_prim(w: &mut World, op: &Op, fam: &str, rest: &str, env: &mut Env) {
    let (a, dst) = (ix(op.a), ix(op.dst));
    let ty = ((op.form & 255) / 16) % 12;
    let var = (op.form & 255) % 16;
    // the literal value of the primitive: n (i64) plus optional high part for 128-bit types
    let val: i128 = if op.m != 0 { ((op.m as i128) << 64) | (op.n as u64 as i128) } else { op.n as i128 };

    macro_rules! arith {
        // $big: the big operand expression (cloneable), $B: its type, $t: primitive type
        (full, $x:expr, $B:ty, $t:ty, $tr:tt, $tra:tt) => {{
            let Ok(p) = <$t>::try_from(val) else { return env.skip() };
            let x: &$B = $x;
            let r: IBig = match var {
                0 => IBig::from(x.clone() $tr p),
                1 => IBig::from(x $tr p),
                2 => IBig::from(x.clone() $tr &p),
                3 => IBig::from(x $tr &p),
                4 => IBig::from(p $tr x.clone()),
                5 => IBig::from(p $tr x),
                6 => IBig::from(&p $tr x.clone()),
                7 => IBig::from(&p $tr x),
                8 => { let mut y = x.clone(); y $tra p; IBig::from(y) }
                9 => { let mut y = x.clone(); y $tra &p; IBig::from(y) }
                10 => IBig::from(x $tr &<$B>::from(p)),
                11 => IBig::from(&<$B>::from(p) $tr x),
                _ => return env.skip(),
            };
            w.i[dst] = r;
            env.res(Pool::I, dst);
        }};
        (lim, $x:expr, $B:ty, $t:ty, $tr:tt, $tra:tt) => {{
            let Ok(p) = <$t>::try_from(val) else { return env.skip() };
            let x: &$B = $x;
            let r: IBig = match var {
                0 => IBig::from(x.clone() $tr p),
                1 => IBig::from(x $tr p),
                2 => IBig::from(x.clone() $tr &p),
                3 => IBig::from(x $tr &p),
                10 => IBig::from(x $tr &<$B>::from(p)),
                _ => return env.skip(),
            };
            w.i[dst] = r;
            env.res(Pool::I, dst);
        }};
    }
    // quotient and remainder with a primitive divisor: trait forms, assign forms, the operator pair, the reference
    macro_rules! divrem {
        ($x:expr, $B:ty, $t:ty) => {{
            let Ok(p) = <$t>::try_from(val) else { return env.skip() };
            let x: &$B = $x;
            let (q, r): ($B, IBig) = match var {
                0 => {
                    let (q, r) = x.clone().div_rem(p);
                    (q, IBig::from(r))
                }
                1 => {
                    let (q, r) = x.div_rem(p);
                    (q, IBig::from(r))
                }
                2 => {
                    let (q, r) = x.clone().div_rem(&p);
                    (q, IBig::from(r))
                }
                3 => {
                    let (q, r) = x.div_rem(&p);
                    (q, IBig::from(r))
                }
                4 => {
                    let mut y = x.clone();
                    let r = y.div_rem_assign(p);
                    (y, IBig::from(r))
                }
                5 => {
                    let mut y = x.clone();
                    let r = y.div_rem_assign(&p);
                    (y, IBig::from(r))
                }
                6 => (x / p, IBig::from(x % p)),
                10 => {
                    let (q, r) = x.div_rem(&<$B>::from(p));
                    (q, IBig::from(r))
                }
                _ => return env.skip(),
            };
            w.i[dst] = IBig::from(q);
            w.i[(dst + 1) % NP] = r;
            env.res(Pool::I, dst);
            env.res(Pool::I, (dst + 1) % NP);
        }};
    }
    // operators whose primitive-on-the-left form exists: + - * (commutative macro), / (impl_div_by_primitive), & | ^
    macro_rules! by_type_u {
        ($k:tt, $tr:tt, $tra:tt) => {
            match ty % 6 {
                0 => arith!($k, &w.u[a], UBig, u8, $tr, $tra),
                1 => arith!($k, &w.u[a], UBig, u16, $tr, $tra),
                2 => arith!($k, &w.u[a], UBig, u32, $tr, $tra),
                3 => arith!($k, &w.u[a], UBig, u64, $tr, $tra),
                4 => arith!($k, &w.u[a], UBig, u128, $tr, $tra),
                _ => arith!($k, &w.u[a], UBig, usize, $tr, $tra),
            }
        };
    }
    macro_rules! by_type_i {
        ($k:tt, $tr:tt, $tra:tt) => {
            match ty {
                0 => arith!($k, &w.i[a], IBig, u8, $tr, $tra),
                1 => arith!($k, &w.i[a], IBig, u16, $tr, $tra),
                2 => arith!($k, &w.i[a], IBig, u32, $tr, $tra),
                3 => arith!($k, &w.i[a], IBig, u64, $tr, $tra),
                4 => arith!($k, &w.i[a], IBig, u128, $tr, $tra),
                5 => arith!($k, &w.i[a], IBig, usize, $tr, $tra),
                6 => arith!($k, &w.i[a], IBig, i8, $tr, $tra),
                7 => arith!($k, &w.i[a], IBig, i16, $tr, $tra),
                8 => arith!($k, &w.i[a], IBig, i32, $tr, $tra),
                9 => arith!($k, &w.i[a], IBig, i64, $tr, $tra),
                10 => arith!($k, &w.i[a], IBig, i128, $tr, $tra),
                _ => arith!($k, &w.i[a], IBig, isize, $tr, $tra),
            }
        };
    }
    if fam == "up" {
        match rest {
            "add" => by_type_u!(full, +, +=),
            "sub" => by_type_u!(full, -, -=),
            "mul" => by_type_u!(full, *, *=),
            "div" => by_type_u!(full, /, /=),
            "rem" => by_type_u!(lim, %, %=),
            "and" => by_type_u!(full, &, &=),
            "or" => by_type_u!(full, |, |=),
            "xor" => by_type_u!(full, ^, ^=),
            "divrem" => match ty % 6 {
                0 => divrem!(&w.u[a], UBig, u8),
                1 => divrem!(&w.u[a], UBig, u16),
                2 => divrem!(&w.u[a], UBig, u32),
                3 => divrem!(&w.u[a], UBig, u64),
                4 => divrem!(&w.u[a], UBig, u128),
                _ => divrem!(&w.u[a], UBig, usize),
            },
            _ => untracked(|| panic!("dsim: unknown op up.{}", rest)),
        }
    } else {
        match rest {
            "add" => by_type_i!(full, +, +=),
            "sub" => by_type_i!(full, -, -=),
            "mul" => by_type_i!(full, *, *=),
            "div" => by_type_i!(full, /, /=),
            "rem" => by_type_i!(lim, %, %=),
            "and" => by_type_i!(full, &, &=),
            "or" => by_type_i!(full, |, |=),
            "xor" => by_type_i!(full, ^, ^=),
            "divrem" => match ty {
                0 => divrem!(&w.i[a], IBig, u8),
                1 => divrem!(&w.i[a], IBig, u16),
                2 => divrem!(&w.i[a], IBig, u32),
                3 => divrem!(&w.i[a], IBig, u64),
                4 => divrem!(&w.i[a], IBig, u128),
                5 => divrem!(&w.i[a], IBig, usize),
                6 => divrem!(&w.i[a], IBig, i8),
                7 => divrem!(&w.i[a], IBig, i16),
                8 => divrem!(&w.i[a], IBig, i32),
                9 => divrem!(&w.i[a], IBig, i64),
                10 => divrem!(&w.i[a], IBig, i128),
                _ => divrem!(&w.i[a], IBig, isize),
            },
            _ => untracked(|| panic!("dsim: unknown op ip.{}", rest)),
        }
    }
}


/// text of an integer, deliberately not in the shape dashu prints: leading zeros (enough to need a heap buffer that must
/// shrink back), underscores, sign, radix prefix, a wrong digit somewhere
fn mutated_text(mag: &UBig, negative: bool, radix: u32, kind: u64, pos: usize) -> String {
    let body = mag.in_radix(radix).to_string();
    let mut t = String::new();
    if negative {
        t.push('-');
    } else if kind % 3 == 1 {
        t.push('+');
    }
    match (kind / 3) % 4 {
        1 => t.push_str(match radix {
            2 => "0b",
            8 => "0o",
            16 => "0x",
            _ => "",
        }),
        2 => t.push_str("0x"),
        _ => {}
    }
    match (kind / 12) % 5 {
        1 => t.push_str(&"0".repeat(1 + pos % 200)),
        2 => t.push_str(&"0".repeat(70)),
        _ => {}
    }
    let mut b: Vec<char> = body.chars().collect();
    match (kind / 60) % 6 {
        1 => {
            let at = 1 + pos % b.len().max(1);
            if at < b.len() {
                b.insert(at, '_');
            }
        }
        2 => {
            let mut i = 3;
            while i < b.len() {
                b.insert(i, '_');
                i += 4;
            }
        }
        3 => {
            let at = pos % b.len().max(1);
            b[at] = ['z', '/', ' ', '.', '-', '+', 'G', '9'][(kind / 360 % 8) as usize];
        }
        4 => b.push('_'),
        _ => {}
    }
    t.extend(b);
    t
}


trait AsMag {
    fn unsigned_abs_ubig(self) -> UBig;
}
impl AsMag for UBig {
    fn unsigned_abs_ubig(self) -> UBig {
        self
    }
}
impl AsMag for IBig {
    fn unsigned_abs_ubig(self) -> UBig {
        self.unsigned_abs()
    }
}

/// the promise behind log2_bounds: lb <= log2(v) <= ub (C19: "the bounds hold in each build"). Judged with a
/// reference computed from the top 53 bits (error below 1e-12, far below the f32 resolution of the bounds).
fn log2_bounds_hold(v: &UBig, lb: f32, ub: f32) -> bool {
    if v.is_zero() {
        return true; // documented as (-inf, -inf)
    }
    let bits = v.bit_len();
    let top: u64 = if bits <= 53 { u64::try_from(v).unwrap() } else { u64::try_from(&(v >> (bits - 53))).unwrap() };
    let shift = bits.saturating_sub(53) as f64;
    // floor of the top bits underestimates by < 2^-52 relative: widen by that much on the upper side
    let lo = (top as f64).log2() + shift;
    let hi = ((top as f64) + if bits > 53 { 1.0 } else { 0.0 }).log2() + shift;
    (lb as f64) <= hi + 1e-9 && (ub as f64) >= lo - 1e-9
}

// ------------------------------------------------------------------ modular ring macro-step
/// `m.ring`: modulus U[a], elements from U[b], I[c]; n selects the operation chain; result residue -> U[dst].
/// The ring and its elements live inside this step only.
pub fn exec_mod(w: &mut World, op: &Op, rest: &str, env: &mut Env) {
    let (a, b, c, dst) = (ix(op.a), ix(op.b), ix(op.c), ix(op.dst));
    match rest {
        "ring" => {
            let ring = ConstDivisor::new(w.u[a].clone()); // panics on zero modulus (documented)
            let x = ring.reduce(w.u[b].clone());
            let y = ring.reduce(w.i[c].clone());
            env.emit_ubig("x", &x.residue());
            let e = UBig::from(op.m.unsigned_abs() % 70);
            let r = match op.n.unsigned_abs() % 14 {
                0 => x.clone() + y.clone(),
                1 => &x - &y,
                2 => x.clone() * &y,
                3 => {
                    let mut t = x.clone();
                    t += &y;
                    t *= y.clone();
                    t -= x.clone();
                    t
                }
                4 => x.pow(&e),
                5 => x.pow(&w.u[(b + 1) % NP]),
                6 => match y.inv() {
                    Some(i) => i * x.clone(),
                    None => {
                        env.emit_u64("noinv", 1);
                        -x.clone()
                    }
                },
                7 => -(x.clone() + &y),
                8 => x.sqr(),
                9 => x.clone().dbl(),
                10 => {
                    // division panics for non-invertible divisors (documented)
                    x.clone() / &y
                }
                11 => ring.reduce(op.m as i64) * ring.reduce(op.m.unsigned_abs() as u128) + x.clone(),
                12 => {
                    let z = x.clone();
                    let mut t = y.clone();
                    t.clone_from(&z);
                    t + y.clone()
                }
                _ => {
                    let s = format!("{} {:?}", x, y);
                    env.emit_str("fmt", &s);
                    env.emit_u64("eq", (x == y) as u64);
                    x.clone() - x.clone()
                }
            };
            env.emit_ubig("m", &r.modulus());
            w.u[dst] = r.residue();
            env.res(Pool::U, dst);
        }
        "half" => {
            // elements whose plain product lands just above the modulus without being longer than it: the reduction
            // paths that avoid a full division (single conditional subtraction) are taken
            let modulus = if op.lit.is_empty() { w.u[a].clone() } else { UBig::from_le_bytes(&op.lit) };
            if modulus.is_zero() {
                return env.skip();
            }
            let bits = modulus.bit_len();
            let ring = ConstDivisor::new(modulus.clone());
            let (x0, y0) = if bits % 64 == 0 && bits >= 192 {
                // word-aligned modulus (no normalisation shift): k words times (n - k) words, both nearly all ones
                let n = bits / 64;
                let k = 1 + (op.n.unsigned_abs() as usize % (n - 1));
                (UBig::ones(64 * k) - UBig::from(c as u8), UBig::ones(64 * (n - k)) - UBig::from(op.m.unsigned_abs() as u8))
            } else {
                let h = bits / 2;
                (
                    &modulus >> h.saturating_sub(op.n.unsigned_abs() as usize % 3),
                    (&modulus >> (bits - h).saturating_sub(op.m.unsigned_abs() as usize % 3)) + UBig::from(c as u8),
                )
            };
            let x = ring.reduce(x0);
            let y = ring.reduce(y0);
            let r = match (op.form & 255) % 5 {
                0 => x.clone() * y.clone(),
                1 => x.sqr() + y.sqr(),
                2 => x.pow(&UBig::from(3u8)),
                3 => &x * &y + x.clone(),
                _ => {
                    let mut t = x.clone();
                    t *= &y;
                    t
                }
            };
            let res = r.residue();
            env.emit_u64("lt_modulus", (res < modulus) as u64);
            w.u[dst] = res;
            env.res(Pool::U, dst);
        }
        "ring2" => {
            // two different rings: mixing them must panic (documented)
            let r1 = ConstDivisor::new(w.u[a].clone());
            let r2 = ConstDivisor::new(w.u[b].clone() + UBig::from(2u8));
            let x = r1.reduce(w.i[c].clone());
            let y = r2.reduce(w.i[c].clone());
            {
                // clone_from across rings of different sizes: the target takes ring and value of the source
                let mut t = x.clone();
                t.clone_from(&y);
                env.emit_ubig("cf", &t.residue());
                env.emit_u64("cf_eq", (t == y) as u64);
                let mut t2 = y.clone();
                t2.clone_from(&x);
                env.emit_ubig("cf2", &(t2 + x.clone()).residue());
            }
            let z = if op.n & 1 == 1 { x + y } else { x * y };
            w.u[dst] = z.residue();
            env.res(Pool::U, dst);
        }
        "rop" => {
            // one operator of the modular ring in every ownership / assignment form (n selects the operator)
            let d = if op.lit.is_empty() { w.u[a].clone() } else { UBig::from_le_bytes(&op.lit) };
            if d.is_zero() {
                return env.skip();
            }
            let ring = ConstDivisor::new(d);
            let x = ring.reduce(w.u[b].clone());
            let y = ring.reduce(w.i[c].clone());
            let f = op.form & 255;
            macro_rules! rforms {
                ($tr:tt, $tra:tt) => {
                    match f % 6 {
                        0 => x.clone() $tr y.clone(),
                        1 => x.clone() $tr &y,
                        2 => &x $tr y.clone(),
                        3 => &x $tr &y,
                        4 => {
                            let mut t = x.clone();
                            t $tra y.clone();
                            t
                        }
                        _ => {
                            let mut t = x.clone();
                            t $tra &y;
                            t
                        }
                    }
                };
            }
            let r = match op.n.unsigned_abs() % 5 {
                0 => rforms!(+, +=),
                1 => rforms!(-, -=),
                2 => rforms!(*, *=),
                3 => rforms!(/, /=),
                _ => {
                    if f % 2 == 0 {
                        -x.clone()
                    } else {
                        -&x
                    }
                }
            };
            w.u[dst] = r.residue();
            env.res(Pool::U, dst);
        }
        "reduce" => {
            // the same number brought into the ring from different types
            let d = if op.lit.is_empty() { w.u[a].clone() } else { UBig::from_le_bytes(&op.lit) };
            if d.is_zero() {
                return env.skip();
            }
            let ring = ConstDivisor::new(d);
            let v = op.m.unsigned_abs();
            let neg = op.n & 1 == 1;
            let r = match ((op.form & 255) % 6, neg) {
                (0, false) => ring.reduce(v),
                (1, false) => ring.reduce(v as u128),
                (2, false) => ring.reduce(UBig::from(v)),
                (3, false) => ring.reduce(IBig::from(v)),
                (4, false) => ring.reduce(v as i128),
                (_, false) => ring.reduce(&UBig::from(v) + &UBig::ZERO),
                (0, true) => ring.reduce(-(v as i128)),
                (1, true) => ring.reduce(-IBig::from(v)),
                (2, true) => -ring.reduce(v),
                (3, true) => -ring.reduce(UBig::from(v)),
                (4, true) => ring.reduce(IBig::ZERO - IBig::from(v)),
                (_, true) => ring.reduce(0u8) - ring.reduce(v),
            };
            w.u[dst] = r.residue();
            env.res(Pool::U, dst);
        }
        "udr" | "idr" => {
            // quotient and remainder by a ConstDivisor: every operator / trait form against the plain big-integer ones
            let d = if op.lit.is_empty() { w.u[a].clone() } else { UBig::from_le_bytes(&op.lit) };
            if d.is_zero() {
                return env.skip();
            }
            let low = &w.u[b] & UBig::from(u64::MAX);
            let bits = d.bit_len();
            // dividend: as is / high part equal to the divisor / high part all ones / maximal remainder
            let x: UBig = match op.n.unsigned_abs() % 4 {
                0 => w.u[b].clone(),
                1 => (d.clone() << 64) + low,
                2 => (UBig::ones(bits.max(1)) << 64) + low,
                _ => {
                    if w.u[b].bit_len() > 4000 {
                        return env.skip();
                    }
                    &d * &w.u[b] + (&d - UBig::ONE)
                }
            };
            let ring = ConstDivisor::new(d.clone());
            let f = op.form & 255;
            if rest == "udr" {
                let (q, r): (UBig, UBig) = match f % 8 {
                    0 => (x.clone() / &ring, x.clone() % &ring),
                    1 => (&x / &ring, &x % &ring),
                    2 => {
                        let (mut q, mut r) = (x.clone(), x.clone());
                        q /= &ring;
                        r %= &ring;
                        (q, r)
                    }
                    3 => x.clone().div_rem(&ring),
                    4 => (&x).div_rem(&ring),
                    5 => {
                        let mut q = x.clone();
                        let r = q.div_rem_assign(&ring);
                        (q, r)
                    }
                    6 => (&x / &d, &x % &d),
                    _ => (&x / &d, ring.reduce(x.clone()).residue()),
                };
                w.u[dst] = q;
                w.u[(dst + 1) % NP] = r;
                env.res(Pool::U, dst);
                env.res(Pool::U, (dst + 1) % NP);
            } else {
                let y = IBig::from_parts(w.i[c].sign(), x);
                let di = IBig::from(d.clone());
                let (q, r): (IBig, IBig) = match f % 8 {
                    0 => (y.clone() / &ring, y.clone() % &ring),
                    1 => (&y / &ring, &y % &ring),
                    2 => {
                        let (mut q, mut r) = (y.clone(), y.clone());
                        q /= &ring;
                        r %= &ring;
                        (q, r)
                    }
                    3 => y.clone().div_rem(&ring),
                    4 => (&y).div_rem(&ring),
                    5 => {
                        let mut q = y.clone();
                        let r = q.div_rem_assign(&ring);
                        (q, r)
                    }
                    6 => (&y / &di, &y % &di),
                    _ => y.clone().div_rem(&di),
                };
                w.i[dst] = q;
                w.i[(dst + 1) % NP] = r;
                env.res(Pool::I, dst);
                env.res(Pool::I, (dst + 1) % NP);
            }
        }
        "divisor" => {
            // ConstDivisor as a fast divisor
            let ring = ConstDivisor::new(w.u[a].clone());
            env.emit_ubig("value", &ring.value());
            let r = match op.n.unsigned_abs() % 4 {
                0 => w.u[b].clone() % &ring,
                1 => &w.u[b] % &ring,
                2 => {
                    let (q, r) = w.u[b].clone().div_rem(&ring);
                    env.emit_ubig("q", &q);
                    r
                }
                _ => {
                    let q = &w.u[b] / &ring;
                    env.emit_ubig("q", &q);
                    w.u[b].clone() - q * ring.value()
                }
            };
            w.u[dst] = r;
            env.res(Pool::U, dst);
        }
        _ => untracked(|| panic!("dsim: unknown op m.{}", rest)),
    }
}

#[allow(unused_imports)]
use {Abs as _, CubicRoot as _, EstimatedLog2 as _, PowerOfTwo as _, Signed as _, Word as _W};
