//! C05: ==, Ord and Hash follow the mathematical value, whichever history produced the values.
//!
//! After every step the freshly produced values are compared with every comparable pool member
//! (and with a freshly rebuilt copy of themselves); the expected relation is computed from exact
//! read-back of the very values being compared (no value model is stepped).

use crate::case::Case;
use crate::gen;
use crate::ops::Op;
use crate::prng::{run_seed, Rng};
use crate::run::*;
use crate::view::*;
use crate::world::*;
use dashu_float::{round::mode, round::Round, FBig};
use dashu_int::{IBig, UBig, Word};
use num_bigint::BigInt;
use num_traits::{Signed, Zero};
use std::cmp::Ordering;
use std::collections::hash_map::DefaultHasher;
use std::hash::{Hash, Hasher};

pub fn gen_case(seed: u64, index: u64) -> Case {
    let rs = run_seed(seed, "C05", index);
    let mut rng = Rng::new(rs);
    let mut sw = gen::Swarm::draw(&mut rng);
    // comparisons need producers and re-derivations above all
    sw.w_panic = sw.w_panic.min(1);
    sw.w_rt = 10 + rng.below(25);
    sw.w_clone = sw.w_clone.max(6);
    sw.w_query = 0;
    sw.w_mod = sw.w_mod.min(2);
    let focus = rng.below(4);
    match focus {
        0 => {
            sw.w_float = 0;
            sw.w_ratio = 0;
        }
        1 => {
            sw.w_float = 40;
            sw.w_arith /= 3;
        }
        2 => {
            sw.w_ratio = 40;
            sw.w_arith /= 3;
        }
        _ => {}
    }
    let cfg = gen::gen_runcfg(&mut rng);
    let len = 4 + rng.below(36) as usize;
    let mut ops = gen::gen_history(&mut rng, &sw, len, 0);
    let garbage_seed = rng.next() | 1;
    gen::insert_rand_ops(&mut ops, rs, false);
    Case { property: "C05".into(), seed, run: index, cfg, fill2: cfg.fill, shadow: false, enumerate: false, garbage_seed, ops }
}

fn std_hash<T: Hash>(v: &T) -> u64 {
    let mut h = DefaultHasher::new();
    v.hash(&mut h);
    h.finish()
}

/// exact value of a float: None = finite (sig, exp), Some(sign) = infinity
struct FVal {
    sig: BigInt,
    exp: isize,
    inf: Option<Ordering>,
}

fn fval<R: Round, const B: Word>(x: &FBig<R, B>) -> FVal {
    let r = x.repr();
    if r.is_infinite() {
        FVal { sig: BigInt::zero(), exp: 0, inf: Some(if r.exponent() > 0 { Ordering::Greater } else { Ordering::Less }) }
    } else {
        FVal { sig: ibig_to_bigint(r.significand()), exp: r.exponent(), inf: None }
    }
}

fn pow_big(base: u64, e: usize) -> BigInt {
    num_traits::pow::pow(BigInt::from(base), e)
}

fn exact_cmp_f(a: &FVal, b: &FVal, base: u64) -> Ordering {
    match (a.inf, b.inf) {
        (Some(x), Some(y)) => return x.cmp(&y),
        (Some(x), None) => return x,
        (None, Some(y)) => return y.reverse(),
        _ => {}
    }
    let (sa, sb) = (a.sig.signum(), b.sig.signum());
    if sa != sb {
        return sa.cmp(&sb);
    }
    if sa.is_zero() {
        return Ordering::Equal;
    }
    // same non-zero sign: compare magnitudes; avoid astronomically large powers with a coarse pre-test
    let lb = (base as f64).log2();
    let ma = a.sig.bits() as f64 + a.exp as f64 * lb;
    let mb = b.sig.bits() as f64 + b.exp as f64 * lb;
    let mag = if (ma - mb).abs() > 4.0 + 1e-9 * (ma.abs() + mb.abs()) {
        if ma > mb {
            Ordering::Greater
        } else {
            Ordering::Less
        }
    } else if a.exp >= b.exp {
        (a.sig.abs() * pow_big(base, (a.exp - b.exp) as usize)).cmp(&b.sig.abs())
    } else {
        a.sig.abs().cmp(&(b.sig.abs() * pow_big(base, (b.exp - a.exp) as usize)))
    };
    if sa.is_negative() {
        mag.reverse()
    } else {
        mag
    }
}

pub struct C05Hook {
    pub comparisons: u64,
    pub equal_pairs: u64,
    pub cross_layout_equal_pairs: u64,
}

fn viol(class: &str, step: usize, detail: String) -> Option<Violation> {
    Some(Violation { class: class.to_string(), step, detail })
}

impl C05Hook {
    pub fn new() -> C05Hook {
        C05Hook { comparisons: 0, equal_pairs: 0, cross_layout_equal_pairs: 0 }
    }

    fn check_ord<T: Ord + PartialOrd + PartialEq>(a: &T, b: &T, exact: Ordering, what: &str, step: usize, desc: impl Fn() -> String) -> Option<Violation> {
        let eq = a == b;
        if eq != (exact == Ordering::Equal) {
            return viol(&format!("{}.eq", what), step, format!("== says {} but values compare {:?}: {}", eq, exact, desc()));
        }
        if (b == a) != eq {
            return viol(&format!("{}.eq_asym", what), step, format!("a==b is {} but b==a is {}: {}", eq, !eq, desc()));
        }
        let c = a.cmp(b);
        if c != exact {
            return viol(&format!("{}.cmp", what), step, format!("cmp says {:?} but values compare {:?}: {}", c, exact, desc()));
        }
        if b.cmp(a) != exact.reverse() {
            return viol(&format!("{}.cmp_asym", what), step, format!("cmp(b,a) is not the reverse of cmp(a,b)={:?}: {}", c, desc()));
        }
        if a.partial_cmp(b) != Some(c) {
            return viol(&format!("{}.partial_cmp", what), step, format!("partial_cmp differs from cmp: {}", desc()));
        }
        None
    }

    /// AbsOrd / AbsEq of the same two values against the exact relation of the absolute values
    fn check_abs_ord<T: dashu_base::AbsOrd>(a: &T, b: &T, exact_abs: Ordering, what: &str, step: usize, desc: impl Fn() -> String) -> Option<Violation> {
        let c = a.abs_cmp(b);
        if c != exact_abs {
            return viol(&format!("{}.abs_cmp", what), step, format!("abs_cmp says {:?} but |values| compare {:?}: {}", c, exact_abs, desc()));
        }
        if b.abs_cmp(a) != exact_abs.reverse() {
            return viol(&format!("{}.abs_cmp_asym", what), step, format!("abs_cmp(b,a) is not the reverse of abs_cmp(a,b)={:?}: {}", c, desc()));
        }
        None
    }
    fn check_abs<T: dashu_base::AbsOrd + dashu_base::AbsEq>(a: &T, b: &T, exact_abs: Ordering, what: &str, step: usize, desc: impl Fn() -> String) -> Option<Violation> {
        if let Some(v) = Self::check_abs_ord(a, b, exact_abs, what, step, &desc) {
            return Some(v);
        }
        let e = a.abs_eq(b);
        if e != (exact_abs == Ordering::Equal) || b.abs_eq(a) != e {
            return viol(&format!("{}.abs_eq", what), step, format!("abs_eq says {} but |values| compare {:?}: {}", e, exact_abs, desc()));
        }
        None
    }

    fn check_u(&mut self, w: &World, k: usize, step: usize) -> Option<Violation> {
        let a = &w.u[k];
        let ea = ubig_to_bigint(a);
        let la = layout_of_ubig(a);
        for (j, b) in w.u.iter().enumerate() {
            let exact = ea.cmp(&ubig_to_bigint(b));
            self.comparisons += 1;
            let d = || format!("U[{}]={} vs U[{}]={}", k, hex_ubig(a), j, hex_ubig(b));
            if let Some(v) = Self::check_ord(a, b, exact, "int", step, d) {
                return Some(v);
            }
            if let Some(v) = Self::check_abs(a, b, exact, "int", step, d) {
                return Some(v);
            }
            if exact == Ordering::Equal {
                self.equal_pairs += 1;
                if la != layout_of_ubig(b) {
                    self.cross_layout_equal_pairs += 1;
                }
                if std_hash(a) != std_hash(b) {
                    return viol("int.hash", step, format!("equal values hash differently: {}", d()));
                }
            }
        }
        // against a freshly built copy (by another route)
        let f = untracked(|| UBig::from_le_bytes(&le_bytes_of_words(a.as_words())));
        self.comparisons += 1;
        if let Some(v) = Self::check_ord(a, &f, Ordering::Equal, "int", step, || format!("U[{}]={} vs fresh copy", k, hex_ubig(a))) {
            return Some(v);
        }
        if std_hash(a) != std_hash(&f) {
            return viol("int.hash", step, format!("U[{}]={} hashes differently from a fresh copy", k, hex_ubig(a)));
        }
        None
    }

    fn check_i(&mut self, w: &World, k: usize, step: usize) -> Option<Violation> {
        let a = &w.i[k];
        let ea = ibig_to_bigint(a);
        for (j, b) in w.i.iter().enumerate() {
            let eb = ibig_to_bigint(b);
            let exact = ea.cmp(&eb);
            self.comparisons += 1;
            let d = || format!("I[{}]={} vs I[{}]={}", k, hex_ibig(a), j, hex_ibig(b));
            if let Some(v) = Self::check_ord(a, b, exact, "int", step, d) {
                return Some(v);
            }
            if let Some(v) = Self::check_abs(a, b, ea.abs().cmp(&eb.abs()), "int", step, d) {
                return Some(v);
            }
            if exact == Ordering::Equal {
                self.equal_pairs += 1;
                if std_hash(a) != std_hash(b) {
                    return viol("int.hash", step, format!("equal values hash differently: {}", d()));
                }
            }
        }
        let (s, words) = a.as_sign_words();
        let f = IBig::from_parts(s, UBig::from_le_bytes(&le_bytes_of_words(words)));
        self.comparisons += 1;
        if let Some(v) = Self::check_ord(a, &f, Ordering::Equal, "int", step, || format!("I[{}]={} vs fresh copy", k, hex_ibig(a))) {
            return Some(v);
        }
        if std_hash(a) != std_hash(&f) {
            return viol("int.hash", step, format!("I[{}]={} hashes differently from a fresh copy", k, hex_ibig(a)));
        }
        None
    }

    fn check_f<R: Round, const B: Word>(&mut self, pool: &[FBig<R, B>], k: usize, step: usize, name: &str) -> Option<Violation> {
        let a = &pool[k];
        let ea = fval(a);
        for (j, b) in pool.iter().enumerate() {
            let exact = exact_cmp_f(&ea, &fval(b), B as u64);
            self.comparisons += 1;
            let d = || format!("{}[{}]={} vs {}[{}]={}", name, k, text_fbig(a), name, j, text_fbig(b));
            if let Some(v) = Self::check_ord(a, b, exact, "float", step, d) {
                return Some(v);
            }
            {
                let abs_of = |v: &FVal| FVal { sig: v.sig.abs(), exp: v.exp, inf: v.inf.map(|_| Ordering::Greater) };
                let eb = fval(b);
                let exact_abs = exact_cmp_f(&abs_of(&ea), &abs_of(&eb), B as u64);
                if let Some(v) = Self::check_abs_ord(a, b, exact_abs, "float", step, d) {
                    return Some(v);
                }
                // the public representation type has its own Ord / Eq
                if a.repr().is_finite() && b.repr().is_finite() {
                    if a.repr().cmp(b.repr()) != exact || (a.repr() == b.repr()) != (exact == Ordering::Equal) {
                        return viol("float.repr_cmp", step, format!("Repr cmp/== disagree with the values ({:?}): {}", exact, d()));
                    }
                }
            }
            if exact == Ordering::Equal {
                self.equal_pairs += 1;
            }
            // the same comparison across rounding modes
            let a2: FBig<mode::HalfEven, B> = a.clone().with_rounding();
            if (a2 == *b) != (exact == Ordering::Equal) {
                return viol("float.eq_mode", step, format!("== across rounding modes disagrees with value order {:?}: {}", exact, d()));
            }
            if a2.partial_cmp(b) != Some(exact) {
                return viol("float.cmp_mode", step, format!("partial_cmp across rounding modes gives {:?}, values compare {:?}: {}", a2.partial_cmp(b), exact, d()));
            }
        }
        // against the same number built afresh through the public constructor
        if a.repr().is_finite() {
            let f = FBig::<R, B>::from_parts(a.repr().significand().clone(), a.repr().exponent());
            self.comparisons += 1;
            let d = || format!("{}[{}]={} vs the same number built by from_parts ({})", name, k, text_fbig(a), text_fbig(&f));
            if let Some(v) = Self::check_ord(a, &f, Ordering::Equal, "float", step, d) {
                return Some(v);
            }
        }
        None
    }

    fn check_r(&mut self, w: &World, k: usize, step: usize) -> Option<Violation> {
        let a = &w.r[k];
        let (na, da) = (ibig_to_bigint(a.numerator()), ubig_to_bigint(a.denominator()));
        for (j, b) in w.r.iter().enumerate() {
            let (nb, db) = (ibig_to_bigint(b.numerator()), ubig_to_bigint(b.denominator()));
            if da.is_zero() || db.is_zero() {
                continue; // not a number: producing it is judged under C04/C19, not here
            }
            let exact = (&na * &db).cmp(&(&nb * &da));
            self.comparisons += 1;
            let d = || format!("R[{}]={} vs R[{}]={}", k, text_rbig(a), j, text_rbig(b));
            if let Some(v) = Self::check_ord(a, b, exact, "ratio", step, d) {
                return Some(v);
            }
            if let Some(v) = Self::check_abs(a, b, (na.abs() * &db).cmp(&(nb.abs() * &da)), "ratio", step, d) {
                return Some(v);
            }
            if exact == Ordering::Equal {
                self.equal_pairs += 1;
                if std_hash(a) != std_hash(b) {
                    return viol("ratio.hash", step, format!("equal values hash differently: {}", d()));
                }
            }
        }
        // against the same number built afresh (canonical by construction)
        if !da.is_zero() {
            let f = dashu_ratio::RBig::from_parts(a.numerator().clone(), a.denominator().clone());
            self.comparisons += 1;
            let d = || format!("R[{}]={} vs the same number built by from_parts ({})", k, text_rbig(a), text_rbig(&f));
            if let Some(v) = Self::check_ord(a, &f, Ordering::Equal, "ratio", step, d) {
                return Some(v);
            }
            if std_hash(a) != std_hash(&f) {
                return viol("ratio.hash", step, format!("equal values hash differently: {}", d()));
            }
        }
        // RBig against the Relaxed pool through as_relaxed (same value, non-reduced partners)
        for (j, b) in w.x.iter().enumerate() {
            let (nb, db) = (ibig_to_bigint(b.numerator()), ubig_to_bigint(b.denominator()));
            if da.is_zero() || db.is_zero() {
                continue;
            }
            let exact = (&na * &db).cmp(&(&nb * &da));
            self.comparisons += 1;
            let d = || format!("R[{}]={} (as Relaxed) vs X[{}]={}", k, text_rbig(a), j, text_relaxed(b));
            if let Some(v) = Self::check_ord(a.as_relaxed(), b, exact, "relaxed", step, d) {
                return Some(v);
            }
        }
        None
    }

    fn check_x(&mut self, w: &World, k: usize, step: usize) -> Option<Violation> {
        let a = &w.x[k];
        let (na, da) = (ibig_to_bigint(a.numerator()), ubig_to_bigint(a.denominator()));
        for (j, b) in w.x.iter().enumerate() {
            let (nb, db) = (ibig_to_bigint(b.numerator()), ubig_to_bigint(b.denominator()));
            if da.is_zero() || db.is_zero() {
                continue;
            }
            let exact = (&na * &db).cmp(&(&nb * &da));
            self.comparisons += 1;
            if exact == Ordering::Equal {
                self.equal_pairs += 1;
            }
            let d = || format!("X[{}]={} vs X[{}]={}", k, text_relaxed(a), j, text_relaxed(b));
            if let Some(v) = Self::check_ord(a, b, exact, "relaxed", step, d) {
                return Some(v);
            }
            if let Some(v) = Self::check_abs(a, b, (na.abs() * &db).cmp(&(nb.abs() * &da)), "relaxed", step, d) {
                return Some(v);
            }
        }
        None
    }
}

impl StepHook for C05Hook {
    fn after_step(&mut self, w: &mut World, _op: &Op, env: &Env, _p: Option<&PanicRec>, step: usize) -> Option<Violation> {
        // dashu comparison code runs here; it allocates temporaries (shifted significands, products)
        for i in 0..env.nres {
            let (p, k) = env.results[i];
            let k = k as usize;
            let v = match p {
                Pool::U => self.check_u(w, k, step),
                Pool::I => self.check_i(w, k, step),
                Pool::F => self.check_f(&w.f, k, step, "F"),
                Pool::D => self.check_f(&w.d, k, step, "D"),
                Pool::R => self.check_r(w, k, step),
                Pool::X => self.check_x(w, k, step),
            };
            if v.is_some() {
                return v;
            }
        }
        None
    }
}

pub fn run_case(case: &Case, stats: &mut Stats, hook: &mut C05Hook) -> Outcome {
    let opts = RunOpts { cfg: case.cfg, garbage_seed: case.garbage_seed, shadow: false, oracles: OracleSet::None, want_text: false, cmp_oracle: true };
    run_ops(&case.ops, &opts, stats, hook)
}
