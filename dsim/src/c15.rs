//! C15: every call form of an operation gives the same answer (or every form panics), and clones
//! are equal to and independent of the original.
//!
//! Each step executes ALL forms of the step's operation on clones of the same world and compares
//! their results by read-back; then one form is applied to the real world (so later steps meet values
//! shaped by that form). A frame condition (no slot other than the declared results/taken operands
//! changes) is the aliasing oracle for clone / clone_from followed by later mutation.

use crate::case::{Case, CaseResult};
use crate::gen;
use crate::ops::Op;
use crate::prng::{run_seed, Rng};
use crate::run::*;
use crate::simalloc;
use crate::view::*;
use crate::world::*;
use std::panic::{catch_unwind, AssertUnwindSafe};

/// Groups of form ids of `name` that denote the same operation on the same operands.
pub fn form_groups(name: &str, same_operand: bool) -> Vec<Vec<u16>> {
    let (fam, rest) = name.split_once('.').unwrap_or((name, ""));
    let r = |n: u16| vec![(0..n).collect::<Vec<u16>>()];
    let with_take = |mut g: Vec<Vec<u16>>| {
        if same_operand {
            // a == b: moving the first operand out of its slot would change the second one
            return g;
        }
        for grp in g.iter_mut() {
            let t: Vec<u16> = grp.iter().map(|f| f | 256).collect();
            grp.extend(t);
        }
        g
    };
    match (fam, rest) {
        ("u" | "i", "add" | "sub" | "mul" | "div" | "rem" | "and" | "or" | "xor") => with_take(r(8)),
        ("u", "divrem") => with_take(r(16)),
        ("i", "divrem") => with_take(r(11)),
        ("i", "diveuclid") => with_take(r(8)),
        ("u" | "i", "shl" | "shr") => with_take(r(7)),
        ("u", "sqrt" | "cbrt" | "mulsign") => r(3),
        ("i", "cbrt") | ("u", "neg") => r(2),
        ("u" | "i", "gcd" | "gcdext") => with_take(r(4)),
        ("i", "neg" | "abs" | "uabs" | "not") => with_take(r(2)),
        ("i", "mulsign") => r(3),
        ("u", "toi") => r(2),
        ("i", "tou") => r(2),
        ("u" | "i", "static") => r(3),
        ("u", "sum") => vec![vec![0, 1, 4], vec![2, 3, 5]],
        ("i" | "f" | "d", "sum") => vec![vec![0, 2, 4], vec![1, 3, 5]],
        ("r" | "x", "split") => r(3),
        ("iu", "gcd" | "gcdext") => r(5),
        ("iu", _) => r(7),
        ("ui", "rem" | "and") => r(7),
        ("ui", "divrem") => r(6),
        ("ui", _) => r(5),
        ("up", op) | ("ip", op) => {
            let ntypes: u16 = if fam == "up" { 6 } else { 12 };
            let mk = |vars: &[u16]| -> Vec<u16> {
                let mut v = Vec::new();
                for ty in 0..ntypes {
                    for var in vars {
                        v.push(ty * 16 + var);
                    }
                }
                v
            };
            match op {
                "add" | "mul" | "and" | "or" | "xor" => vec![mk(&[0, 1, 2, 3, 4, 5, 6, 7, 8, 9, 10, 11])],
                "sub" | "div" => vec![mk(&[0, 1, 2, 3, 8, 9, 10]), mk(&[4, 5, 6, 7, 11])],
                "divrem" => vec![mk(&[0, 1, 2, 3, 4, 5, 6, 10])],
                _ => vec![mk(&[0, 1, 2, 3, 10])],
            }
        }
        ("f" | "d", "add" | "sub" | "mul" | "div" | "rem") => {
            // native rounding mode (with operand-moving variants) + four more rounding modes, one group each
            let mut g = with_take(r(10));
            for m in 1..5u16 {
                g.push((0..10).map(|f| 16 * m + f).collect());
            }
            g
        }
        ("f" | "d", "addi" | "muli" | "addu" | "mulu") => r(12),
        ("f" | "d", "subi" | "divi") => vec![(0..7).collect(), vec![7, 8, 9, 10, 11]],
        ("f" | "d", "subu" | "divu") => vec![(0..7).collect(), vec![7, 8, 9, 10, 11]],
        ("f" | "d", "diveuclid") => r(8),
        ("f" | "d", "split" | "powf" | "exp" | "ln" | "expm1" | "ln1p" | "big") => r(2),
        ("f" | "d", "shl" | "shr") => with_take(r(3)),
        ("f" | "d", "neg") => r(2),
        ("f" | "d", "sqr" | "cubic" | "sqrt" | "powi") => r(2),
        ("f" | "d", "inv") => r(3),
        ("f" | "d", "mulsign") => r(3),
        ("r" | "x", "add" | "sub" | "mul" | "div" | "rem") => with_take(r(8)),
        ("r" | "x", "addi" | "muli" | "addu" | "mulu") => r(10),
        ("r" | "x", "subi" | "divi" | "subu" | "divu") => vec![(0..5).collect(), (5..10).collect()],
        ("r" | "x", "inv" | "neg") => r(2),
        ("r" | "x", "diveuclid") => r(3),
        ("m", "udr" | "idr") => r(8),
        ("m", "rop" | "reduce") => r(6),
        ("u" | "i", "nint") => r(6),
        ("u", "big") => r(20),
        ("u", "ochunks") => r(2),
        ("f" | "d" | "r" | "x", "asint") => r(8),
        ("u" | "i" | "f" | "r" | "x", "asf") => vec![vec![0, 1], vec![2, 3]],
        _ => Vec::new(),
    }
}

pub fn gen_case(seed: u64, index: u64) -> Case {
    let rs = run_seed(seed, "C15", index);
    let mut rng = Rng::new(rs);
    let mut sw = gen::Swarm::draw(&mut rng);
    sw.w_arith = sw.w_arith.max(20);
    sw.w_mixed = sw.w_mixed.max(10);
    sw.w_clone = sw.w_clone.max(10);
    sw.w_query = 0;
    sw.w_panic = sw.w_panic.min(1);
    sw.w_mod = 4;
    match rng.below(4) {
        0 => {
            sw.w_float = 0;
            sw.w_ratio = 0;
        }
        1 => sw.w_float = 40,
        2 => sw.w_ratio = 40,
        _ => {}
    }
    let cfg = gen::gen_runcfg(&mut rng);
    let len = 4 + rng.below(28) as usize;
    let ops = gen::gen_history(&mut rng, &sw, len, 0);
    Case { property: "C15".into(), seed, run: index, cfg, fill2: cfg.fill, shadow: false, enumerate: false, garbage_seed: rng.next() | 1, ops }
}

#[derive(Default)]
pub struct C15Counters {
    pub form_groups_run: u64,
    pub forms_executed: u64,
    pub forms_skipped: u64,
    pub all_panicked_groups: u64,
    pub clone_steps: u64,
    pub frame_checks: u64,
}

fn slot_digests(w: &World) -> Vec<u64> {
    let mut v = Vec::with_capacity(6 * NP);
    for p in [Pool::U, Pool::I, Pool::F, Pool::D, Pool::R, Pool::X] {
        for k in 0..NP {
            let mut d = Dig::new();
            w.dig_slot(&mut d, p, k);
            v.push(d.0);
        }
    }
    v
}
fn slot_index(p: Pool, k: usize) -> usize {
    (match p {
        Pool::U => 0,
        Pool::I => 1,
        Pool::F => 2,
        Pool::D => 3,
        Pool::R => 4,
        Pool::X => 5,
    }) * NP
        + k
}

fn clone_world(w: &World) -> World {
    let mut c = World::new();
    for k in 0..NP {
        c.u[k] = w.u[k].clone();
        c.i[k] = w.i[k].clone();
        c.f[k] = w.f[k].clone();
        c.d[k] = w.d[k].clone();
        c.r[k] = w.r[k].clone();
        c.x[k] = w.x[k].clone();
    }
    c
}

/// outcome of one form: (panicked, digest of results + scalar outputs, text)
struct FormOutcome {
    form: u16,
    panicked: bool,
    digest: u64,
    text: String,
}

pub fn run_case(case: &Case, stats: &mut Stats, cnt: &mut C15Counters) -> CaseResult {
    simalloc::begin_run(case.cfg, case.garbage_seed);
    let mut res = CaseResult { violation: None, harness_error: None, chain: 0xC15, executions: 1, fault_points: 0, failing: None, soft: None };
    simalloc::track(true);
    let mut w = World::new();
    simalloc::track(false);
    let mut env = Env::new(false);

    'steps: for (k, op) in case.ops.iter().enumerate() {
        CUR_STEP.store(k as u64, std::sync::atomic::Ordering::Relaxed);
        // ---------------- all forms of this operation on clones of the same world
        let groups = form_groups(&op.name, ix(op.a) == ix(op.b));
        let own_form = op.form;
        let _ = own_form;
        for group in groups.iter() {
            cnt.form_groups_run += 1;
            let mut outs: Vec<FormOutcome> = Vec::with_capacity(group.len());
            for &f in group {
                let mut o2 = op.clone();
                o2.form = f;
                o2.fault = None;
                let mut fenv = Env::new(false);
                fenv.forms_oracle = true;
                simalloc::track(true);
                let r = catch_unwind(AssertUnwindSafe(|| {
                    let mut w2 = clone_world(&w);
                    let pr = catch_unwind(AssertUnwindSafe(|| exec(&mut w2, &o2, &mut fenv)));
                    let panicked = pr.is_err();
                    drop(pr);
                    let mut d = Dig::new();
                    let mut text = String::new();
                    if !panicked {
                        for i in 0..fenv.nres {
                            let (p, s) = fenv.results[i];
                            if p == Pool::X {
                                // Relaxed has no canonical form: forms must agree on the value, not the representation
                                dig_relaxed_value(&mut d, &w2.x[s as usize]);
                            } else {
                                w2.dig_slot(&mut d, p, s as usize);
                            }
                            untracked(|| text.push_str(&format!("{} ", w2.text_slot(p, s as usize))));
                        }
                        d.u64(fenv.dig.0);
                    }
                    drop(w2);
                    (panicked, d.0, text)
                }));
                simalloc::track(false);
                let pinfo = take_panic();
                match r {
                    Ok((panicked, digest, text)) => {
                        if let Some(p) = &pinfo {
                            if p.origin() == "harness" {
                                res.harness_error = Some(format!("harness panic at {}:{}: {}", p.file(), p.line, p.msg()));
                                break 'steps;
                            }
                        }
                        if let Some((class, detail)) = untracked(|| fenv.violation.take()) {
                            res.violation = Some(Violation { class, step: k, detail: format!("{} form {}: {}", op.name, f, detail) });
                            break 'steps;
                        }
                        if fenv.skipped {
                            cnt.forms_skipped += 1;
                            continue;
                        }
                        cnt.forms_executed += 1;
                        res.executions += 1;
                        let text = match (&pinfo, panicked) {
                            (Some(p), true) => format!("panic[{} @{}:{}]", p.msg().chars().take(70).collect::<String>(), p.file().rsplit('/').next().unwrap_or(""), p.line),
                            _ => text,
                        };
                        outs.push(FormOutcome { form: f, panicked, digest, text });
                    }
                    Err(_) => {
                        res.harness_error = Some("cloning the world panicked".into());
                        break 'steps;
                    }
                }
            }
            if !outs.is_empty() && outs.iter().all(|o| o.panicked) {
                cnt.all_panicked_groups += 1;
            }
            // primitive-output forms that panic with OutOfBounds because the mathematical result does not fit the
            // primitive type: a design-level disagreement of its own class; it does not stop the run
            if op.name.starts_with("ip.") || op.name.starts_with("up.") {
                if let Some(val) = outs.iter().find(|o| !o.panicked) {
                    // the value that has to fit the primitive output: the (only) result, for div_rem the remainder
                    let vtext = if op.name.ends_with(".divrem") { val.text.split_whitespace().last().unwrap_or("0").to_string() } else { val.text.clone() };
                    let vform = val.form;
                    let before = outs.len();
                    let mut example = None;
                    outs.retain(|o| {
                        let oob = o.panicked && o.text.contains("OutOfBounds") && !hex_fits_primitive(vtext.trim(), (o.form & 255) / 16);
                        if oob && example.is_none() {
                            example = Some((o.form, o.text.clone()));
                        }
                        !oob
                    });
                    if outs.len() != before && res.soft.as_ref().map(|v| !v.class.ends_with(op.name.as_str())).unwrap_or(true) && res.soft.is_none() {
                        let (f, t) = example.unwrap();
                        res.soft = Some(Violation {
                            class: format!("form.primitive_output_out_of_range.{}", op.name),
                            step: k,
                            detail: format!("{}: form {} -> {} but form {} -> {} [the mathematical result does not fit the primitive output type]", op.name, f, t, vform, vtext.trim()),
                        });
                    }
                }
            }
            if let Some(first) = outs.first() {
                for o in &outs[1..] {
                    if o.panicked != first.panicked || (!o.panicked && o.digest != first.digest) {
                        let show = |o: &FormOutcome| o.text.clone();
                        let class = if o.panicked != first.panicked { "form.panic_disagree" } else { "form.value_disagree" };
                        res.violation = Some(Violation {
                            class: class.into(),
                            step: k,
                            detail: format!("{}: form {} -> {} but form {} -> {}", op.name, first.form, show(first), o.form, show(o)),
                        });
                        break 'steps;
                    }
                }
            }
        }

        // ---------------- the step itself on the real world, with the frame condition
        let before = slot_digests(&w);
        let (la, lb) = operand_layouts(&w, op);
        env.reset();
        simalloc::track(true);
        let r = catch_unwind(AssertUnwindSafe(|| exec(&mut w, op, &mut env)));
        let panicked = r.is_err();
        drop(r);
        simalloc::track(false);
        let prec = if panicked { take_panic() } else { None };
        if let Some(p) = &prec {
            if p.origin() == "harness" {
                res.harness_error = Some(format!("harness panic at {}:{}: {}", p.file(), p.line, p.msg()));
                break;
            }
            Stats::bump(&mut stats.panics, p.class());
        }
        stats.steps += 1;
        if env.skipped {
            stats.skipped += 1;
        }
        record_sig(stats, &w, op, &env, prec.as_ref().map(|p| p.class()).unwrap_or(""), la, lb);
        let after = slot_digests(&w);
        // slots allowed to change: declared results; operands of take-forms; anything if the step panicked
        // part-way (documented take-and-replace semantics) is restricted to the operand/target slots too
        let mut allowed = vec![false; 6 * NP];
        for i in 0..env.nres {
            let (p, s) = env.results[i];
            allowed[slot_index(p, s as usize)] = true;
        }
        let name = op.name.as_str();
        let pp = match name.as_bytes()[0] {
            b'u' => Pool::U,
            b'i' => Pool::I,
            b'f' => Pool::F,
            b'd' => Pool::D,
            b'r' => Pool::R,
            b'x' => Pool::X,
            _ => Pool::U,
        };
        if op.form & 256 != 0 || name.ends_with(".take") || panicked {
            // operands moved out of their slots (mem::take leaves the default value behind); after a panic the
            // targets of the step may hold old, new or default values
            for p in [Pool::U, Pool::I, Pool::F, Pool::D, Pool::R, Pool::X] {
                if p == pp || panicked || name.starts_with("iu.") || name.starts_with("ui.") {
                    allowed[slot_index(p, ix(op.a))] = true;
                    allowed[slot_index(p, ix(op.b))] = true;
                    if panicked {
                        allowed[slot_index(p, ix(op.dst))] = true;
                        allowed[slot_index(p, (ix(op.dst) + 1) % NP)] = true;
                    }
                }
            }
        }
        cnt.frame_checks += 1;
        for i in 0..6 * NP {
            if before[i] != after[i] && !allowed[i] {
                res.violation = Some(Violation {
                    class: "frame.unrelated_value_changed".into(),
                    step: k,
                    detail: format!("{}: slot #{} (pool {}, index {}) changed although it is neither result nor moved operand", op.name, i, i / NP, i % NP),
                });
                break 'steps;
            }
        }
        // clone / clone_from: equal to the source, and not sharing its buffer
        if (name.ends_with(".clone") || name.ends_with(".clonefrom")) && !panicked {
            cnt.clone_steps += 1;
            let (a, d) = (ix(op.a), ix(op.dst));
            if after[slot_index(pp, a)] != after[slot_index(pp, d)] {
                res.violation = Some(Violation { class: "clone.not_equal".into(), step: k, detail: format!("{}: clone differs from its source", op.name) });
                break;
            }
        }
        // structural sharing between any two values is caught by the storage audit (shared buffer)
        if let Some((class, detail)) = audit_shared(&w) {
            res.violation = Some(Violation { class, step: k, detail });
            break;
        }
        let mut sd = Dig::new();
        for x in &after {
            sd.u64(*x);
        }
        sd.u64(env.dig.0);
        res.chain = {
            let mut d = Dig(res.chain);
            d.u64(sd.0);
            d.0
        };
        simalloc::track(true);
        let r = catch_unwind(AssertUnwindSafe(|| w.cap()));
        simalloc::track(false);
        if r.is_err() {
            let _ = take_panic();
        }
    }
    if res.violation.is_some() || res.harness_error.is_some() {
        std::mem::forget(w);
    } else {
        simalloc::track(true);
        let _ = catch_unwind(AssertUnwindSafe(|| drop(w)));
        simalloc::track(false);
        let _ = take_panic();
    }
    simalloc::end_run();
    let _ = simalloc::take_violation();
    stats.runs += 1;
    res
}

/// two live values must never own the same buffer (a clone aliasing its original)
fn audit_shared(w: &World) -> Option<(String, String)> {
    let mut seen: Vec<usize> = Vec::with_capacity(40);
    let mut bad = None;
    w.for_each_int(|pool, k, comp, v| {
        let (_, words) = v.as_sign_words();
        if words.len() > 2 {
            let p = words.as_ptr() as usize;
            if seen.contains(&p) && bad.is_none() {
                bad = Some(("clone.shared_buffer".to_string(), format!("{:?}[{}].{} shares its buffer with another live value", pool, k, comp)));
            }
            seen.push(p);
        }
    });
    bad
}

#[allow(dead_code)]
fn _unused(_: &Op) {}

/// does the value printed as [-]hex fit primitive type number `ty` (u8 u16 u32 u64 u128 usize i8 i16 i32 i64 i128 isize)?
fn hex_fits_primitive(text: &str, ty: u16) -> bool {
    use num_bigint::BigInt;
    let t = text.split_whitespace().next().unwrap_or("0");
    let (neg, digits) = match t.strip_prefix('-') {
        Some(d) => (true, d),
        None => (false, t),
    };
    let Some(mag) = BigInt::parse_bytes(digits.as_bytes(), 16) else { return true };
    let v = if neg { -mag } else { mag };
    let bits = [8u32, 16, 32, 64, 128, 64, 8, 16, 32, 64, 128, 64][(ty % 12) as usize];
    let one = BigInt::from(1);
    if ty % 12 < 6 {
        v >= BigInt::from(0) && v < (&one << bits)
    } else {
        v >= -(&one << (bits - 1)) && v < (&one << (bits - 1))
    }
}

fn dig_relaxed_value(d: &mut Dig, x: &dashu_ratio::Relaxed) {
    use num_integer::Integer;
    use num_traits::Zero;
    let n = untracked(|| ibig_to_bigint(x.numerator()));
    let den = untracked(|| ubig_to_bigint(x.denominator()));
    untracked(|| {
        if den.is_zero() {
            d.bytes(b"zero-denominator");
            d.bytes(&n.to_signed_bytes_le());
            return;
        }
        let g = n.gcd(&den);
        let (n, den) = (&n / &g, &den / &g);
        d.bytes(&n.to_signed_bytes_le());
        d.bytes(&den.to_signed_bytes_le());
    });
}
