//! Executor: comparisons across number types (AbsOrd / NumOrd). They only produce scalar outputs;
//! they are part of the cross-build transcripts (C19), where one build is the other's oracle.

use crate::ops::Op;
use crate::world::*;
use dashu_base::{AbsOrd, BitTest};
use num_order::NumOrd;

fn tame_exp(e: isize) -> bool {
    e.unsigned_abs() <= 1500
}

pub fn exec_xc(w: &mut World, op: &Op, rest: &str, env: &mut Env) {
    let (a, b) = (ix(op.a), ix(op.b));
    match rest {
        "fi" => {
            let x = &w.f[a];
            if !x.repr().is_finite() || !tame_exp(x.repr().exponent()) || x.repr().significand().bit_len() > 3000 {
                return env.skip();
            }
            env.emit_ord("abs_i", x.abs_cmp(&w.i[b]));
            env.emit_ord("abs_u", x.abs_cmp(&w.u[b]));
            env.emit_ord("i_abs", w.i[b].abs_cmp(x));
            env.emit_ord("num_i", x.num_cmp(&w.i[b]));
            env.emit_ord("num_u", x.num_cmp(&w.u[b]));
            env.emit_ord("i_num", w.i[b].num_cmp(x));
            env.emit_u64("eq_i", x.num_eq(&w.i[b]) as u64);
        }
        "di" => {
            let x = &w.d[a];
            if !x.repr().is_finite() || !tame_exp(x.repr().exponent()) || x.repr().significand().bit_len() > 3000 {
                return env.skip();
            }
            env.emit_ord("abs_i", x.abs_cmp(&w.i[b]));
            env.emit_ord("abs_u", x.abs_cmp(&w.u[b]));
            env.emit_ord("u_abs", w.u[b].abs_cmp(x));
            env.emit_ord("num_i", x.num_cmp(&w.i[b]));
            env.emit_ord("num_u", x.num_cmp(&w.u[b]));
            env.emit_ord("u_num", w.u[b].num_cmp(x));
            env.emit_u64("eq_u", x.num_eq(&w.u[b]) as u64);
        }
        "fd" => {
            let (x, y) = (&w.f[a], &w.d[b]);
            if !x.repr().is_finite() || !y.repr().is_finite() || !tame_exp(x.repr().exponent()) || y.repr().exponent().unsigned_abs() > 500 {
                return env.skip();
            }
            env.emit_ord("num", x.num_cmp(y));
            env.emit_ord("rev", y.num_cmp(x));
            env.emit_u64("eq", x.num_eq(y) as u64);
        }
        "rf" => {
            let r = &w.r[a];
            let (x, y) = (&w.f[b], &w.d[b]);
            if !x.repr().is_finite() || !y.repr().is_finite() || !tame_exp(x.repr().exponent()) || y.repr().exponent().unsigned_abs() > 500 {
                return env.skip();
            }
            env.emit_ord("num_f", r.num_cmp(x));
            env.emit_ord("num_d", r.num_cmp(y));
            env.emit_ord("f_num", x.num_cmp(r));
            env.emit_ord("abs_f", r.abs_cmp(x));
            env.emit_ord("abs_d", r.abs_cmp(y));
            env.emit_ord("x_num_f", w.x[a].num_cmp(x));
        }
        "ri" => {
            let r = &w.r[a];
            env.emit_ord("num_i", r.num_cmp(&w.i[b]));
            env.emit_ord("num_u", r.num_cmp(&w.u[b]));
            env.emit_ord("i_num", w.i[b].num_cmp(r));
            env.emit_ord("abs_i", r.abs_cmp(&w.i[b]));
            env.emit_ord("abs_u", r.abs_cmp(&w.u[b]));
            env.emit_ord("x_num_i", w.x[a].num_cmp(&w.i[b]));
            env.emit_ord("x_abs_u", w.x[a].abs_cmp(&w.u[b]));
        }
        "prim" => {
            let p = op.n;
            let f = f64::from_bits((op.m as u64).wrapping_mul(0x9E3779B97F4A7C15) >> 2 | 0x3000_0000_0000_0000);
            env.emit_ord("i_i64", w.i[a].num_cmp(&p));
            env.emit_ord("u_f64", w.u[a].num_cmp(&f));
            env.emit_ord("r_i64", w.r[a].num_cmp(&p));
            env.emit_ord("r_f64", w.r[a].num_cmp(&f));
            if w.f[b].repr().is_finite() && tame_exp(w.f[b].repr().exponent()) {
                env.emit_ord("f_i64", w.f[b].num_cmp(&p));
                env.emit_ord("f_f64", w.f[b].num_cmp(&f));
            }
            if w.d[b].repr().is_finite() && w.d[b].repr().exponent().unsigned_abs() <= 500 {
                env.emit_ord("d_f64", w.d[b].num_cmp(&f));
            }
        }
        _ => untracked(|| panic!("dsim: unknown op xc.{}", rest)),
    }
}
