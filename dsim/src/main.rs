mod c04;
mod c05;
mod c15;
mod c17;
mod c19;
mod c19m;
mod exec_medium;
mod case;
mod exec_conv;
mod exec_cross;
mod exec_float;
mod exec_int;
mod exec_ratio;
mod exec_third;
mod f7;
mod gen;
mod gen_fr;
mod ops;
mod prng;
mod run;
mod simalloc;
mod statics;
mod view;
mod world;

use std::io::Write;

#[global_allocator]
static GLOBAL: simalloc::SimAlloc = simalloc::SimAlloc;

fn arg<'a>(args: &'a [String], key: &str) -> Option<&'a str> {
    args.iter().position(|a| a == key).and_then(|i| args.get(i + 1)).map(|s| s.as_str())
}
fn arg_u64(args: &[String], key: &str, default: u64) -> u64 {
    arg(args, key).map(|s| s.parse().unwrap_or_else(|_| die(&format!("bad value for {key}")))).unwrap_or(default)
}
fn die(msg: &str) -> ! {
    eprintln!("dsim: {msg}");
    std::process::exit(2)
}

fn self_test() {
    prng::self_test();
    simalloc::self_test();
    view::self_test();
}

fn gen_case(prop: &str, seed: u64, index: u64) -> case::Case {
    match prop {
        "C17" => c17::gen_case(seed, index),
        "C04" => c04::gen_case(seed, index),
        "C05" => c05::gen_case(seed, index),
        "C19" => c19::gen_case(seed, index),
        "C19M" => c19m::gen_case(seed, index),
        "C15" => c15::gen_case(seed, index),
        _ => die(&format!("unknown property {prop}")),
    }
}

/// per-property oracle state that outlives single cases (counters for the evidence)
struct Ctx {
    c05: c05::C05Hook,
    c15: c15::C15Counters,
    c04: c04::C04Counters,
    c19m: c19m::MediumHook,
}
impl Ctx {
    fn new() -> Ctx {
        Ctx { c05: c05::C05Hook::new(), c15: c15::C15Counters::default(), c04: c04::C04Counters::default(), c19m: c19m::MediumHook::default() }
    }
    fn extra(&self) -> serde_json::Value {
        serde_json::json!({
            "c05_comparisons": self.c05.comparisons,
            "c05_equal_pairs": self.c05.equal_pairs,
            "c05_cross_layout_equal_pairs": self.c05.cross_layout_equal_pairs,
            "c19m_medium_steps_by_fault_kind": self.c19m.by_fault,
            "c19m_medium_steps": self.c19m.medium_steps,
            "c19m_decoded_ok": self.c19m.decoded_ok,
            "c19m_thirdparty_panics_inconclusive": self.c19m.thirdparty_panics,
            "c04_lockstep_steps": self.c04.lockstep_steps,
            "c04_expected_div0_panics": self.c04.expected_div0_panics,
            "c04_integer_valued_results": self.c04.integer_valued_results,
            "c04_zero_results": self.c04.zero_results,
            "c04_inputs_sharing_denominator_factors": self.c04.shared_factor_inputs,
            "c04_relaxed_results_without_common_factor_two": self.c04.relaxed_reduced_by_two_only,
            "c15_form_groups_run": self.c15.form_groups_run,
            "c15_forms_executed": self.c15.forms_executed,
            "c15_forms_skipped": self.c15.forms_skipped,
            "c15_all_forms_panicked_groups": self.c15.all_panicked_groups,
            "c15_clone_steps": self.c15.clone_steps,
            "c15_frame_checks": self.c15.frame_checks,
        })
    }
}

fn run_case(c: &case::Case, stats: &mut run::Stats, ctx: &mut Ctx) -> case::CaseResult {
    match c.property.as_str() {
        "C17" => c17::run_case(c, stats),
        "C05" => case::CaseResult::from_outcome(c05::run_case(c, stats, &mut ctx.c05)),
        "C15" => c15::run_case(c, stats, &mut ctx.c15),
        "C04" => c04::run_case(c, stats, &mut ctx.c04),
        "C19M" => case::CaseResult::from_outcome(c19m::run_case(c, stats, &mut ctx.c19m)),
        p => die(&format!("unknown property {p}")),
    }
}

fn main() {
    let args: Vec<String> = std::env::args().collect();
    let cmd = args.get(1).map(|s| s.as_str()).unwrap_or("help");
    statics::register();
    run::install_panic_hook();
    run::install_signal_handlers();
    let out = std::io::stdout();
    match cmd {
        "selftest" => {
            self_test();
            println!("selftest ok");
        }
        "gen" => {
            let prop = arg(&args, "--prop").unwrap_or("C17");
            let seed = arg_u64(&args, "--seed", 20261002);
            let index = arg_u64(&args, "--run", 0);
            let c = gen_case(prop, seed, index);
            println!("{}", serde_json::to_string_pretty(&c.to_json(None, None)).unwrap());
        }
        "batch" => {
            self_test();
            let prop = arg(&args, "--prop").unwrap_or("C17");
            let seed = arg_u64(&args, "--seed", 20261002);
            let from = arg_u64(&args, "--from", 0);
            let to = arg_u64(&args, "--to", 100);
            let max_viol = arg_u64(&args, "--max-viol", 20);
            let hashes = args.iter().any(|a| a == "--hashes");
            let mark_runs = args.iter().any(|a| a == "--mark-runs");
            let recheck = arg_u64(&args, "--recheck-every", 100);
            let mut stats = run::Stats::new();
            let mut ctx = Ctx::new();
            let mut nviol = 0;
            let mut soft_seen: Vec<String> = Vec::new();
            let mut soft_hits = 0u64;
            let mut executions = 0u64;
            let mut fault_points = 0u64;
            let mut enumerated = 0u64;
            let mut rechecked = 0u64;
            let mut lock = out.lock();
            for i in from..to {
                run::CUR_RUN.store(i, std::sync::atomic::Ordering::Relaxed);
                run::watchdog(120);
                if mark_runs {
                    writeln!(lock, "RUN {}", i).unwrap();
                    lock.flush().unwrap();
                }
                let c = gen_case(prop, seed, i);
                let r = run_case(&c, &mut stats, &mut ctx);
                executions += r.executions;
                fault_points += r.fault_points;
                if c.enumerate {
                    enumerated += 1;
                }
                if let Some(e) = &r.harness_error {
                    writeln!(lock, "HARNESS run={} error={}", i, e).unwrap();
                    lock.flush().unwrap();
                    std::process::exit(2);
                }
                if hashes {
                    writeln!(lock, "HASH {} {:016x}", i, r.chain).unwrap();
                }
                if let Some(v) = &r.soft {
                    if !soft_seen.contains(&v.class) {
                        soft_seen.push(v.class.clone());
                        let mut fc = c.clone();
                        fc.ops.truncate(v.step + 1);
                        writeln!(lock, "SOFT {}", serde_json::to_string(&fc.to_json(Some(&v.class), Some(&format!("step {}: {}", v.step, v.detail)))).unwrap()).unwrap();
                    }
                    soft_hits += 1;
                }
                if let Some(v) = &r.violation {
                    let fc = r.failing.as_ref().unwrap_or(&c);
                    writeln!(lock, "VIOL {}", serde_json::to_string(&fc.to_json(Some(&v.class), Some(&format!("step {}: {}", v.step, v.detail)))).unwrap()).unwrap();
                    nviol += 1;
                    if nviol >= max_viol {
                        break;
                    }
                } else if recheck > 0 && i % recheck == 0 {
                    // determinism re-check: the same case must give the same event-log hash chain
                    let mut s2 = run::Stats::new();
                    let mut ctx2 = Ctx::new();
                    let r2 = run_case(&c, &mut s2, &mut ctx2);
                    rechecked += 1;
                    if r2.chain != r.chain || r2.violation.is_some() {
                        writeln!(lock, "HARNESS run={} error=nondeterministic re-execution ({:016x} vs {:016x})", i, r.chain, r2.chain).unwrap();
                        lock.flush().unwrap();
                        std::process::exit(2);
                    }
                }
                if stats.samples.len() < 3 && i % 7 == 0 {
                    let t: Vec<String> = c.ops.iter().take(12).map(|o| o.to_line()).collect();
                    stats.samples.push(t.join(" ; "));
                }
            }
            let mut j = stats.to_json();
            j["executions"] = executions.into();
            j["fault_points_enumerated"] = fault_points.into();
            j["histories_enumerated"] = enumerated.into();
            j["determinism_rechecks"] = rechecked.into();
            j["violations"] = nviol.into();
            let mut sites = serde_json::Map::new();
            for (name, seen, failed) in simalloc::site_counters() {
                sites.insert(name.to_string(), serde_json::json!({"requests_seen": seen, "failed_by_injection": failed}));
            }
            j["fallible_sites"] = serde_json::Value::Object(sites);
            j["soft_hits"] = soft_hits.into();
            j["extra"] = ctx.extra();
            writeln!(lock, "STATS {}", j).unwrap();
        }
        "transcript" => {
            // C19 (a): per-run transcript hashes (or the full text of one run / one case file)
            self_test();
            let seed = arg_u64(&args, "--seed", 20261002);
            let from = arg_u64(&args, "--from", 0);
            let to = arg_u64(&args, "--to", 100);
            let full = args.iter().any(|a| a == "--full");
            let mut stats = run::Stats::new();
            let mut lock = out.lock();
            let file_case = arg(&args, "--file").map(|file| {
                let text = std::fs::read_to_string(file).unwrap_or_else(|e| die(&format!("{file}: {e}")));
                let v: serde_json::Value = serde_json::from_str(&text).unwrap_or_else(|e| die(&format!("{file}: {e}")));
                case::Case::from_json(&v).unwrap_or_else(|e| die(&e))
            });
            let range = if file_case.is_some() { 0..1 } else { from..to };
            for i in range {
                run::CUR_RUN.store(i, std::sync::atomic::Ordering::Relaxed);
                run::watchdog(120);
                let c = match &file_case {
                    Some(c) => c.clone(),
                    None => c19::gen_case(seed, i),
                };
                let (o, t) = c19::run_transcript(&c, &mut stats, full);
                if let Some(e) = o.harness_error {
                    writeln!(lock, "HARNESS run={} error={}", i, e).unwrap();
                    lock.flush().unwrap();
                    std::process::exit(2);
                }
                writeln!(lock, "T {} {:016x} {}", i, t.dig.0, c.ops.len()).unwrap();
                if full {
                    for l in &t.lines {
                        writeln!(lock, "L {}", l).unwrap();
                    }
                }
            }
            let mut j = stats.to_json();
            j["executions"] = stats.runs.into();
            writeln!(lock, "STATS {}", j).unwrap();
        }
        "f7" => {
            // reader-thread scenario; meant to run under Miri (`cargo +nightly miri run -- f7 ...`)
            let seed = arg_u64(&args, "--seed", 20261002);
            let from = arg_u64(&args, "--from", 0);
            let to = arg_u64(&args, "--to", 4);
            let mut ops = 0usize;
            for i in from..to {
                println!("RUN {}", i);
                let r = f7::run_f7(seed, i);
                ops += r.ops;
                if let Some(m) = r.mismatch {
                    println!("VIOLF7 run={} {}", i, m);
                    std::process::exit(1);
                }
            }
            println!("F7OK runs={} ops={}", to - from, ops);
        }
        "exec" => {
            // execute one case file; prints RESULT line; exit 0 always unless harness error
            let file = arg(&args, "--file").unwrap_or_else(|| die("--file needed"));
            let text = std::fs::read_to_string(file).unwrap_or_else(|e| die(&format!("{file}: {e}")));
            let v: serde_json::Value = serde_json::from_str(&text).unwrap_or_else(|e| die(&format!("{file}: {e}")));
            let c = case::Case::from_json(&v).unwrap_or_else(|e| die(&e));
            let mut stats = run::Stats::new();
            let mut ctx = Ctx::new();
            let r = run_case(&c, &mut stats, &mut ctx);
            if let Some(e) = r.harness_error {
                println!("RESULT harness_error {}", e);
                std::process::exit(2);
            }
            match r.violation {
                Some(v) => {
                    let fc = r.failing.as_ref().unwrap_or(&c);
                    println!("RESULT violation class={} step={} detail={}", v.class, v.step, v.detail);
                    println!("CASE {}", serde_json::to_string(&fc.to_json(Some(&v.class), Some(&v.detail))).unwrap());
                }
                None => match r.soft {
                    Some(v) => println!("RESULT violation class={} step={} detail={}", v.class, v.step, v.detail),
                    None => println!("RESULT ok chain={:016x}", r.chain),
                },
            }
        }
        _ => {
            eprintln!("usage: dsim selftest | gen | batch | exec");
            std::process::exit(2);
        }
    }
}
