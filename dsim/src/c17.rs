//! C17: memory safety and storage invariants of the hand-managed integer storage under
//! operation histories x allocator faults x crash points x allocator content/placement.

use crate::case::{Case, CaseResult};
use crate::gen;
use crate::ops::{Fault, FaultKind};
use crate::prng::{run_seed, Rng};
use crate::run::*;

pub fn gen_case(seed: u64, index: u64) -> Case {
    let rs = run_seed(seed, "C17", index);
    let mut rng = Rng::new(rs);
    let sw = gen::Swarm::draw(&mut rng);
    let cfg = gen::gen_runcfg(&mut rng);
    let fill2 = (cfg.fill + 1 + rng.below(3) as u8) % 4;
    let kind = rng.below(100);
    let (ops, enumerate, shadow) = if kind < 25 {
        // short history, every single allocation fault enumerated
        let len = 3 + rng.below(if cfg!(miri) { 5 } else { 10 }) as usize;
        let sw = if rng.chance(1, 2) { sw.ints_only() } else { sw };
        // (macro-steps on very long operands are left to the other two kinds of history: enumerating every fault of a
        // step that costs tens of milliseconds would dominate the run)
        let mut ops = gen::gen_history(&mut rng, &sw, len, 0);
        ops.retain(|o| !gen::is_macro_step(&o.name));
        (ops, true, false)
    } else if kind < 45 {
        // fault-free history with the shadow differential (hidden-state independence)
        let len = 4 + rng.below(if cfg!(miri) { 10 } else { 40 }) as usize;
        (gen::gen_history(&mut rng, &sw, len, 0), false, true)
    } else {
        // random faults inside a longer history; recovery is judged by the steps that follow
        let len = 4 + rng.below(if cfg!(miri) { 12 } else { 60 }) as usize;
        let rate = [3u64, 6, 10, 20][rng.below(4) as usize];
        let shadow = rng.chance(1, 3);
        (gen::gen_history(&mut rng, &sw, len, rate), false, shadow)
    };
    let mut ops = ops;
    if !cfg!(miri) || index % 2 == 0 {
        gen::insert_rand_ops(&mut ops, rs, !enumerate);
    }
    Case {
        property: "C17".into(),
        seed,
        run: index,
        cfg,
        fill2,
        shadow,
        enumerate,
        garbage_seed: rng.next() | 1,
        ops,
    }
}

fn one(case: &Case, fill: u8, stats: &mut Stats) -> Outcome {
    let mut cfg = case.cfg;
    cfg.fill = fill;
    let opts = RunOpts { cfg, garbage_seed: case.garbage_seed, shadow: case.shadow, oracles: OracleSet::C17, want_text: false, cmp_oracle: false };
    run_ops(&case.ops, &opts, stats, &mut NoHook)
}

pub fn run_case(case: &Case, stats: &mut Stats) -> CaseResult {
    let mut res = CaseResult { violation: None, harness_error: None, chain: 0, executions: 0, fault_points: 0, failing: None, soft: None };
    let o1 = one(case, case.cfg.fill, stats);
    res.executions += 1;
    res.chain = o1.chain;
    if o1.harness_error.is_some() || o1.violation.is_some() {
        res.harness_error = o1.harness_error;
        res.violation = o1.violation;
        return res;
    }
    if case.fill2 != case.cfg.fill {
        let o2 = one(case, case.fill2, stats);
        res.executions += 1;
        if o2.harness_error.is_some() || o2.violation.is_some() {
            res.harness_error = o2.harness_error;
            res.violation = o2.violation;
            let mut f = case.clone();
            f.cfg.fill = case.fill2;
            f.fill2 = case.fill2;
            res.failing = Some(f);
            return res;
        }
        if o2.chain != o1.chain {
            res.violation = Some(Violation {
                class: "uninit.fill_dependent".into(),
                step: case.ops.len(),
                detail: format!("event log differs between fill patterns {} and {}", case.cfg.fill, case.fill2),
            });
            return res;
        }
    }
    if case.enumerate {
        // exhaustive single-fault coverage of this history
        for (k, &events) in o1.fallible.iter().enumerate() {
            for j in 1..=events.min(if cfg!(miri) { 2 } else { 40 }) {
                let mut c = case.clone();
                c.enumerate = false;
                c.ops[k].fault = Some(Fault { kind: FaultKind::Alloc, k: j });
                res.fault_points += 1;
                let mut chains = [0u64; 2];
                let fills = [case.cfg.fill, case.fill2];
                let nf = if case.fill2 != case.cfg.fill { 2 } else { 1 };
                for fi in 0..nf {
                    let o = one(&c, fills[fi], stats);
                    res.executions += 1;
                    if o.harness_error.is_some() || o.violation.is_some() {
                        res.harness_error = o.harness_error;
                        res.violation = o.violation;
                        c.cfg.fill = fills[fi];
                        c.fill2 = fills[fi];
                        res.failing = Some(c);
                        return res;
                    }
                    chains[fi] = o.chain;
                }
                if nf == 2 && chains[0] != chains[1] {
                    res.violation = Some(Violation {
                        class: "uninit.fill_dependent".into(),
                        step: k,
                        detail: format!("event log differs between fill patterns {} and {} (with fault)", fills[0], fills[1]),
                    });
                    res.failing = Some(c);
                    return res;
                }
            }
        }
        // every callback fault of this history: the k-th call of a caller-supplied fmt sink / iterator fails or panics
        for (k, &calls) in o1.callbacks.iter().enumerate() {
            for j in 1..=calls.min(if cfg!(miri) { 2 } else { 6 }) {
                for kind in [FaultKind::CbErr, FaultKind::CbPanic] {
                    let mut c = case.clone();
                    c.enumerate = false;
                    c.ops[k].fault = Some(Fault { kind, k: j });
                    res.fault_points += 1;
                    let o = one(&c, case.cfg.fill, stats);
                    res.executions += 1;
                    if o.harness_error.is_some() || o.violation.is_some() {
                        res.harness_error = o.harness_error;
                        res.violation = o.violation;
                        c.fill2 = c.cfg.fill;
                        res.failing = Some(c);
                        return res;
                    }
                }
            }
        }
        // a sample of fault pairs: a second refusal in a later step, while the first one's recovery is what the
        // history continues from (event counts of the fault-free run; a count that no longer exists does not fire)
        let mut prng = Rng::new(case.garbage_seed ^ 0xFA17_FA17);
        let sites: Vec<(usize, u32)> = o1.fallible.iter().enumerate().flat_map(|(k, &e)| (1..=e.min(6)).map(move |j| (k, j))).collect();
        if sites.len() >= 2 {
            let pairs = if cfg!(miri) { 2 } else { 16.min(sites.len() * (sites.len() - 1) / 2) };
            for _ in 0..pairs {
                let (a, b) = (prng.below(sites.len() as u64) as usize, prng.below(sites.len() as u64) as usize);
                let ((k1, j1), (k2, j2)) = (sites[a.min(b)], sites[a.max(b)]);
                if k1 == k2 {
                    continue;
                }
                let mut c = case.clone();
                c.enumerate = false;
                c.ops[k1].fault = Some(Fault { kind: FaultKind::Alloc, k: j1 });
                c.ops[k2].fault = Some(Fault { kind: FaultKind::Alloc, k: j2 });
                res.fault_points += 1;
                let o = one(&c, case.cfg.fill, stats);
                res.executions += 1;
                if o.harness_error.is_some() || o.violation.is_some() {
                    res.harness_error = o.harness_error;
                    res.violation = o.violation;
                    c.fill2 = c.cfg.fill;
                    res.failing = Some(c);
                    return res;
                }
            }
        }
    }
    res
}
