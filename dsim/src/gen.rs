//! Seeded generation of operation lists (the workload) and run configurations (the swarm).

use crate::ops::{Fault, FaultKind, Op};
use crate::prng::Rng;
use crate::simalloc::RunCfg;
use crate::world::NP;

pub const MAX_BITS: usize = if cfg!(miri) { 330 } else { 4000 };

/// Bit lengths concentrated where hidden representation state changes.
pub fn gen_bits(rng: &mut Rng, big: bool) -> usize {
    const EDGE: [usize; 22] =
        [0, 1, 2, 31, 32, 33, 63, 64, 65, 95, 96, 97, 127, 128, 129, 159, 160, 161, 191, 192, 193, 256];
    let b = match rng.below(100) {
        0..=14 => rng.below(65) as usize,
        15..=44 => rng.pick(&EDGE),
        45..=64 => 130 + rng.below(900) as usize,
        65..=84 => {
            // around reallocation / algorithm thresholds, counted in 64-bit words
            const W: [usize; 14] = [3, 4, 5, 6, 8, 10, 12, 16, 20, 24, 25, 26, 32, 33];
            let w = rng.pick(&W);
            (w * 64 + rng.below(5) as usize).saturating_sub(2)
        }
        _ => {
            if big {
                1000 + rng.below(3000) as usize
            } else {
                200 + rng.below(600) as usize
            }
        }
    };
    b.min(MAX_BITS)
}

/// A literal of exactly `bits` bits (little-endian bytes) with one of several bit patterns.
pub fn gen_lit_bits(rng: &mut Rng, bits: usize) -> Vec<u8> {
    if bits == 0 {
        return if rng.chance(1, 4) { vec![0u8; rng.below(4) as usize] } else { Vec::new() };
    }
    let nbytes = (bits + 7) / 8;
    let mut v = match rng.below(10) {
        0 | 1 => vec![0xFFu8; nbytes],                 // all ones
        2 => vec![0u8; nbytes],                        // power of two (top bit set below)
        3 => {
            // 2^k + 1
            let mut v = vec![0u8; nbytes];
            v[0] = 1;
            v
        }
        4 => {
            // sparse
            let mut v = vec![0u8; nbytes];
            for _ in 0..3 {
                let k = rng.below(bits as u64) as usize;
                v[k / 8] |= 1 << (k % 8);
            }
            v
        }
        5 => {
            // random with low zero words
            let mut v = rng.bytes(nbytes);
            let z = rng.below(nbytes as u64 + 1) as usize;
            for b in v.iter_mut().take(z) {
                *b = 0;
            }
            v
        }
        6 => {
            // all ones with a hole (borrow / carry chains)
            let mut v = vec![0xFFu8; nbytes];
            let k = rng.below(nbytes as u64) as usize;
            v[k] = 0xFE;
            v
        }
        _ => rng.bytes(nbytes),
    };
    // exact bit length
    let top = (bits - 1) % 8;
    let last = nbytes - 1;
    v[last] &= (1u16 << (top + 1)).wrapping_sub(1) as u8;
    v[last] |= 1 << top;
    v
}

pub fn gen_lit(rng: &mut Rng, big: bool) -> Vec<u8> {
    let bits = gen_bits(rng, big);
    gen_lit_bits(rng, bits)
}

fn slot(rng: &mut Rng) -> u64 {
    rng.below(NP as u64)
}

fn form(rng: &mut Rng) -> u64 {
    let f = rng.below(16);
    if rng.chance(1, 4) {
        f | 256
    } else {
        f
    }
}

fn shift_amount(rng: &mut Rng) -> i64 {
    match rng.below(10) {
        0..=2 => rng.below(8) as i64,
        3..=5 => rng.pick(&[31i64, 32, 33, 63, 64, 65, 127, 128, 129, 192]),
        6..=8 => rng.below(400) as i64,
        _ => rng.below(3000) as i64,
    }
}

#[derive(Clone, Debug)]
pub struct Swarm {
    pub w_ctor: u64,
    pub w_arith: u64,
    pub w_bits: u64,
    pub w_clone: u64,
    pub w_conv: u64,
    pub w_query: u64,
    pub w_mod: u64,
    pub w_mixed: u64,
    pub w_float: u64,
    pub w_ratio: u64,
    pub w_panic: u64,
    pub w_rt: u64,
    pub big: bool,
    /// this run contains macro-steps on very long operands (a sixth of the "big" runs: they cost milliseconds each)
    pub macro_steps: bool,
}

impl Swarm {
    pub fn draw(rng: &mut Rng) -> Swarm {
        let mut w = |base: u64| if rng.chance(1, 4) { 0 } else { base * (1 + rng.below(3)) };
        let mut s = Swarm {
            w_ctor: w(14),
            w_arith: w(20),
            w_bits: w(8),
            w_clone: w(14),
            w_conv: w(8),
            w_query: w(4),
            w_mod: w(3),
            w_mixed: w(5),
            w_float: w(8),
            w_ratio: w(8),
            w_panic: w(2),
            w_rt: w(5),
            big: false,
            macro_steps: false,
        };
        s.big = rng.chance(1, 3);
        s.macro_steps = s.big && rng.chance(1, 6);
        if s.w_ctor == 0 && rng.chance(3, 4) {
            s.w_ctor = 10;
        }
        s
    }
    pub fn ints_only(mut self) -> Swarm {
        self.w_float = 0;
        self.w_ratio = 0;
        self
    }
    fn total(&self) -> u64 {
        self.w_ctor
            + self.w_arith
            + self.w_bits
            + self.w_clone
            + self.w_conv
            + self.w_query
            + self.w_mod
            + self.w_mixed
            + self.w_float
            + self.w_ratio
            + self.w_panic
            + self.w_rt
    }
}

const BIN: [&str; 8] = ["add", "sub", "mul", "div", "rem", "and", "or", "xor"];

pub fn gen_ctor(rng: &mut Rng, sw: &Swarm) -> Op {
    let d = slot(rng);
    match rng.below(12) {
        0..=4 => Op::new("u.lit").dst(d).form(rng.below(7)).n(rng.below(4) as i64).lit(gen_lit(rng, sw.big)),
        5..=7 => Op::new("i.lit")
            .dst(d)
            .form(rng.below(21))
            .n(rng.below(4) as i64)
            .m(rng.below(2) as i64)
            .lit(gen_lit(rng, sw.big)),
        8 => Op::new("u.ones").dst(d).n(gen_bits(rng, sw.big) as i64),
        9 => Op::new(if rng.chance(1, 2) { "u.static" } else { "i.static" }).dst(d).n(rng.below(8) as i64).form(rng.below(3)),
        10 => {
            if rng.chance(1, 2) {
                Op::new("u.pow2").dst(d).n(gen_bits(rng, sw.big) as i64)
            } else {
                Op::new("u.sparse").dst(d).n(rng.next() as i64).m(rng.below(8) as i64).form(rng.below(2))
            }
        }
        _ => Op::new("i.bytes_lit").dst(d).form(rng.below(2)).lit(gen_lit(rng, sw.big)),
    }
}

pub fn gen_arith(rng: &mut Rng) -> Op {
    let t = if rng.chance(3, 5) { "u" } else { "i" };
    let (a, b, d) = (slot(rng), slot(rng), slot(rng));
    match rng.below(20) {
        0..=9 => Op::new(&format!("{}.{}", t, rng.pick(&BIN))).a(a).b(b).dst(d).form(form(rng)),
        10 => Op::new(&format!("{}.divrem", t)).a(a).b(b).dst(d).form(form(rng)),
        11 => Op::new("i.diveuclid").a(a).b(b).dst(d).form(form(rng)),
        12 => Op::new(&format!("{}.pow", t)).a(a).dst(d).n(rng.below(6) as i64),
        13 => Op::new(&format!("{}.{}", t, rng.pick(&["sqr", "cubic", "sqrt"]))).a(a).dst(d).form(rng.below(2)),
        14 => Op::new(&format!("{}.root", t)).a(a).dst(d).n(1 + rng.below(5) as i64),
        15 => Op::new(&format!("{}.gcd", t)).a(a).b(b).dst(d).form(form(rng)),
        16 => Op::new(&format!("{}.gcdext", t)).a(a).b(b).dst(d).form(form(rng)),
        17 => {
            if rng.chance(1, 2) {
                Op::new(&format!("{}.sum", t)).dst(d).form(rng.below(6))
            } else {
                Op::new(&format!("{}.nint", t)).a(a).b(b).dst(d).n(rng.below(10) as i64).m(rng.below(40) as i64).form(rng.below(6))
            }
        }
        18 => Op::new(rng.pick(&["i.neg", "i.abs", "i.uabs", "i.not", "i.signum", "u.neg", "u.sqrtrem", "u.cbrt", "i.cbrt"]))
            .a(a)
            .dst(d)
            .form(form(rng)),
        _ => Op::new(rng.pick(&["i.mulsign", "u.mulsign"])).a(a).dst(d).n(rng.below(2) as i64).form(rng.below(3)),
    }
}

pub fn gen_bitsop(rng: &mut Rng, sw: &Swarm) -> Op {
    let (a, d) = (slot(rng), slot(rng));
    let t = if rng.chance(2, 3) { "u" } else { "i" };
    match rng.below(10) {
        0 | 1 => Op::new(&format!("{}.shl", t)).a(a).dst(d).n(shift_amount(rng)).form(form(rng)),
        2 | 3 => Op::new(&format!("{}.shr", t)).a(a).dst(d).n(shift_amount(rng)).form(form(rng)),
        4 => Op::new("u.setbit").a(a).n(gen_bits(rng, sw.big) as i64),
        5 => Op::new("u.clearbit").a(a).n(gen_bits(rng, sw.big) as i64),
        6 => Op::new("u.clearhigh").a(a).n(gen_bits(rng, sw.big) as i64),
        7 => Op::new("u.splitbits").a(a).dst(d).n(gen_bits(rng, sw.big) as i64).form(form(rng)),
        8 => Op::new("u.nextpow2").a(a).dst(d).form(form(rng)),
        _ => Op::new("u.remove").a(a).b(slot(rng)),
    }
}

pub fn gen_cloneop(rng: &mut Rng) -> Op {
    let t = rng.pick(&["u", "u", "i", "i", "f", "d", "r", "x"]);
    let (a, b, d) = (slot(rng), slot(rng), slot(rng));
    let k = match rng.below(10) {
        0 | 1 => "clone",
        2..=5 => "clonefrom",
        6 => "take",
        7 => "swap",
        8 => "drop",
        _ => "zeroize",
    };
    Op::new(&format!("{}.{}", t, k)).a(a).b(b).dst(d)
}

pub fn gen_conv(rng: &mut Rng) -> Op {
    let (a, d) = (slot(rng), slot(rng));
    let t = if rng.chance(1, 2) { "u" } else { "i" };
    match rng.below(10) {
        8 => Op::new(&format!("{}.asf", t)).a(a).form(rng.below(4)),
        9 => {
            let fam = rng.pick(&["u", "i", "f", "r", "x", "d"]);
            if fam != "d" && rng.chance(1, 2) {
                Op::new(&format!("{}.fromf", fam)).dst(d).n(rng.next() as i64).m(rng.below(16) as i64).form(rng.below(3))
            } else {
                Op::new(&format!("{}.const", fam)).dst(d).n(rng.next() as i64).m(rng.below(1 << 30) as i64).form(rng.below(5))
            }
        }
        0 => Op::new(&format!("{}.str", t)).a(a).dst(d).n(rng.below(35) as i64).form(rng.below(3)),
        1 => Op::new(&format!("{}.parse", t)).a(a).dst(d).n(rng.below(8000) as i64).m(rng.below(3000) as i64).form(rng.below(4)),
        2 | 3 => Op::new(&format!("{}.bytes", t)).a(a).dst(d).form(rng.below(2)),
        4 => {
            if rng.chance(1, 2) {
                Op::new("u.chunks").a(a).dst(d).n(rng.below(200) as i64)
            } else {
                Op::new("u.ochunks").dst(d).n(rng.below(12) as i64).m(rng.below(8) as i64).form(rng.below(2))
            }
        }
        5 => Op::new("u.toi").a(a).dst(d).form(form(rng)),
        6 => Op::new("i.tou").a(a).dst(d).form(form(rng)),
        _ => Op::new("i.parts").a(a).dst(d).form(form(rng)),
    }
}

pub fn gen_query(rng: &mut Rng, faults: bool) -> Op {
    let (a, b) = (slot(rng), slot(rng));
    if rng.chance(1, 4) {
        // comparisons across number types
        let k = rng.pick(&["xc.fi", "xc.di", "xc.fd", "xc.rf", "xc.ri", "xc.prim"]);
        return Op::new(k).a(a).b(b).n(prim_value(rng).0).m(rng.below(1 << 30) as i64);
    }
    let t = if rng.chance(1, 2) { "u" } else { "i" };
    match rng.below(5) {
        0 | 1 => Op::new(&format!("{}.query", t)).a(a).b(b).n(rng.below(5000) as i64),
        2 => Op::new(&format!("{}.hash", t)).a(a).b(b),
        _ => {
            let mut op = Op::new(&format!("{}.fmt", t)).a(a).n(rng.below(35) as i64).form(rng.below(10));
            if faults && rng.chance(1, 3) {
                op.fault = Some(Fault {
                    kind: if rng.chance(1, 2) { FaultKind::CbErr } else { FaultKind::CbPanic },
                    k: 1 + rng.below(4) as u32,
                });
            }
            op
        }
    }
}

pub fn gen_mod(rng: &mut Rng) -> Op {
    let name = match rng.below(18) {
        0 => "m.ring2",
        1 | 2 => "m.divisor",
        3 | 4 => "m.half",
        10 | 11 => "m.udr",
        12 | 13 => "m.idr",
        14 | 15 | 16 => "m.rop",
        17 => "m.reduce",
        _ => "m.ring",
    };
    if name == "m.udr" || name == "m.idr" || name == "m.rop" || name == "m.reduce" {
        // quotient and remainder by a ConstDivisor in every call form; the divisor is a boundary shape most of the time
        // (no normalisation shift, all ones, just below a word boundary, one / two / three words)
        let mut op = Op::new(name).a(slot(rng)).b(slot(rng)).c(slot(rng)).dst(slot(rng)).n(rng.below(if name == "m.rop" { 5 } else { 4 }) as i64).m(rng.below(200) as i64).form(rng.below(8));
        if name == "m.reduce" {
            op = op.m(prim_value(rng).0);
        }
        if rng.chance(3, 4) {
            let words = 1 + rng.below(3) as usize;
            let mut v = vec![0u8; 8 * words];
            match rng.below(6) {
                0 => v.iter_mut().for_each(|b| *b = 0xff),
                1 => *v.last_mut().unwrap() = 0x80,
                2 => {
                    v.iter_mut().for_each(|b| *b = 0xff);
                    v[0] = 0xff - rng.below(200) as u8;
                }
                3 => {
                    for b in v.iter_mut() {
                        *b = rng.next() as u8;
                    }
                    *v.last_mut().unwrap() |= 0x80;
                }
                4 => {
                    for b in v.iter_mut() {
                        *b = rng.next() as u8;
                    }
                    let top = v.len() - 1;
                    v[top] = 1 + rng.below(127) as u8;
                }
                _ => {
                    v = vec![0u8; 4 * (1 + rng.below(3) as usize)];
                    v.iter_mut().for_each(|b| *b = 0xff);
                }
            }
            op.lit = v;
        }
        return op;
    }
    let mut op = Op::new(name).a(slot(rng)).b(slot(rng)).c(slot(rng)).dst(slot(rng)).n(rng.below(14) as i64).m(rng.below(200) as i64).form(rng.below(5));
    if name == "m.half" && rng.chance(2, 3) {
        // own modulus: a multiple of 64 bits half of the time (then there is no normalisation shift)
        let bits = if rng.chance(1, 2) { 64 * (3 + rng.below(if cfg!(miri) { 2 } else { 8 }) as usize) } else { gen_bits(rng, false).max(130) };
        op.lit = gen_lit_bits(rng, bits);
    }
    op
}

pub fn prim_value(rng: &mut Rng) -> (i64, i64) {
    // (n, m): value = m != 0 ? (m << 64 | n as u64) : n
    match rng.below(10) {
        0 => (0, 0),
        1 => (1, 0),
        2 => (-1, 0),
        3 => (rng.pick(&[127i64, 128, 255, 256, 32767, 65535, 65536, -128, -129, -32768]), 0),
        4 => (rng.pick(&[i64::MAX, i64::MIN, u32::MAX as i64, i32::MIN as i64, i32::MAX as i64]), 0),
        5 => (rng.next() as i64, rng.below(1 << 20) as i64),
        6 => (rng.next() as i64, -(rng.below(1 << 20) as i64) - 1),
        _ => {
            let bits = rng.below(63);
            let v = (rng.next() >> (63 - bits)) as i64;
            (if rng.chance(1, 3) { -v } else { v }, 0)
        }
    }
}

pub fn gen_mixed(rng: &mut Rng) -> Op {
    let (a, b, d) = (slot(rng), slot(rng), slot(rng));
    match rng.below(4) {
        0 => Op::new(&format!("iu.{}", rng.pick(&["add", "sub", "mul", "div", "rem", "and", "or", "xor", "divrem", "gcd", "gcdext"]))).a(a).b(b).dst(d).form(rng.below(7)),
        1 => Op::new(&format!("ui.{}", rng.pick(&["add", "sub", "mul", "div", "rem", "or", "xor", "and", "divrem", "gcd", "gcdext"]))).a(a).b(b).dst(d).form(rng.below(7)),
        _ => {
            let fam = if rng.chance(1, 2) { "up" } else { "ip" };
            let (n, m) = prim_value(rng);
            Op::new(&format!("{}.{}", fam, rng.pick(&["add", "sub", "mul", "div", "rem", "and", "or", "xor", "divrem"]))).a(a).dst(d).n(n).m(m).form(rng.below(12) * 16 + rng.below(12))
        }
    }
}

/// operations generated on purpose to hit documented panics after in-place work (fault kind F5)
pub fn gen_panic(rng: &mut Rng, sw: &Swarm) -> Op {
    let (a, b, d) = (slot(rng), slot(rng), slot(rng));
    match rng.below(10) {
        8 | 9 if !cfg!(miri) => Op::new("u.huge").a(a).dst(d).n(rng.below(4000) as i64).m(rng.below(4) as i64).form(rng.below(7)),
        0 | 1 => {
            // UBig subtraction underflowing only in the top words: build b = a + 2^k first is left to chance;
            // here: subtract a freshly larger literal in place
            Op::new("u.sub").a(a).b(b).dst(d).form(6 + rng.below(2))
        }
        2 => Op::new("u.div").a(a).b(b).dst(d).form(form(rng)),
        3 => Op::new("u.root").a(a).dst(d).n(0),
        4 => Op::new("i.sqrt").a(a).dst(d),
        5 => Op::new("u.setbit").a(a).n(i64::MAX - rng.below(1000) as i64).m(1),
        6 if !cfg!(miri) => Op::new("u.setbit").a(a).n((1i64 << 40) + gen_bits(rng, sw.big) as i64).m(1),
        _ => Op::new("m.ring2").a(a).b(b).c(slot(rng)).dst(d).n(rng.below(2) as i64),
    }
}

pub fn gen_rt(rng: &mut Rng) -> Op {
    let t = if rng.chance(1, 2) { "u" } else { "i" };
    let kbits = rng.pick(&[0usize, 1, 8, 63, 64, 65, 128, 129, 200, 700]);
    Op::new(&format!("{}.rt", t))
        .a(slot(rng))
        .dst(slot(rng))
        .form(rng.below(14))
        .n(shift_amount(rng))
        .m(rng.below(2) as i64)
        .lit(gen_lit_bits(rng, kbits))
}

/// DSIM_NO_MACRO=1: leave the macro-steps on very long operands out of the generated histories (the opt-level-0
/// slice, where they cost tens of milliseconds each)
pub fn no_macro_steps() -> bool {
    static FLAG: std::sync::OnceLock<bool> = std::sync::OnceLock::new();
    *FLAG.get_or_init(|| std::env::var("DSIM_NO_MACRO").map(|v| v == "1").unwrap_or(false))
}

pub fn is_macro_step(name: &str) -> bool {
    matches!(name, "u.big" | "f.big" | "d.big" | "rbig.reduce")
}

pub fn gen_op(rng: &mut Rng, sw: &Swarm, faults: bool) -> Op {
    if sw.macro_steps && !cfg!(miri) && !no_macro_steps() && rng.chance(1, 30) {
        // operands far above the pool cap, inside one step (algorithm thresholds counted in words)
        return Op::new("u.big").a(slot(rng)).b(slot(rng)).c(slot(rng)).dst(slot(rng)).n(rng.below(7) as i64).m(rng.below(1 << 20) as i64).form(rng.below(20));
    }
    let total = sw.total().max(1);
    let mut r = rng.below(total);
    macro_rules! pick {
        ($w:expr, $e:expr) => {
            if r < $w {
                return $e;
            }
            r -= $w;
        };
    }
    pick!(sw.w_ctor, gen_ctor(rng, sw));
    pick!(sw.w_arith, gen_arith(rng));
    pick!(sw.w_bits, gen_bitsop(rng, sw));
    pick!(sw.w_clone, gen_cloneop(rng));
    pick!(sw.w_conv, gen_conv(rng));
    pick!(sw.w_query, gen_query(rng, faults));
    pick!(sw.w_mod, gen_mod(rng));
    pick!(sw.w_mixed, gen_mixed(rng));
    pick!(sw.w_float, crate::gen_fr::gen_float(rng, sw));
    pick!(sw.w_ratio, crate::gen_fr::gen_ratio(rng, sw));
    pick!(sw.w_panic, gen_panic(rng, sw));
    pick!(sw.w_rt, gen_rt(rng));
    let _ = r;
    gen_ctor(rng, sw)
}

/// dashu's random samplers driven by the simulator's generator; inserted into finished histories from a stream of its
/// own (`insert_rand_ops`), so that the histories of every property stay what they were before the seam existed
pub fn gen_rand_op(rng: &mut Rng, faults: bool) -> Op {
    let mut op = Op::new("u.rand").a(slot(rng)).b(slot(rng)).dst(slot(rng)).n(rng.below(12) as i64).m((rng.next() >> 8) as i64).form(rng.below(8));
    if faults && rng.chance(1, 4) {
        op.fault = Some(Fault { kind: FaultKind::CbPanic, k: 1 + rng.below(6) as u32 });
    }
    op
}

pub fn insert_rand_ops(ops: &mut Vec<Op>, stream_seed: u64, faults: bool) {
    let mut rng = Rng::new(stream_seed ^ 0x52414e44);
    if !rng.chance(1, 3) || ops.is_empty() {
        return;
    }
    for _ in 0..1 + rng.below(2) {
        let at = rng.below(ops.len() as u64 + 1) as usize;
        ops.insert(at, gen_rand_op(&mut rng, faults));
    }
}

pub fn gen_runcfg(rng: &mut Rng) -> RunCfg {
    RunCfg { fill: rng.below(4) as u8, realloc_move: rng.chance(1, 2), misalign: rng.chance(1, 2) }
}

/// A history for C17: `len` steps; `fault_rate_pct` of steps carry an allocation fault.
pub fn gen_history(rng: &mut Rng, sw: &Swarm, len: usize, fault_rate_pct: u64) -> Vec<Op> {
    let mut ops = Vec::with_capacity(len);
    // seed the pools with a few large values so that interesting layouts exist from the start
    let warm = rng.below(4) as usize;
    for _ in 0..warm.min(len) {
        ops.push(gen_ctor(rng, sw));
    }
    while ops.len() < len {
        let mut op = gen_op(rng, sw, fault_rate_pct > 0);
        if fault_rate_pct > 0 && op.fault.is_none() && rng.below(100) < fault_rate_pct {
            let k = match rng.below(10) {
                0..=5 => 1,
                6..=8 => 2,
                _ => 3 + rng.below(4) as u32,
            };
            op.fault = Some(Fault { kind: FaultKind::Alloc, k });
        }
        ops.push(op);
    }
    ops
}
