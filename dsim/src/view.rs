//! Read-back of dashu values through public accessors only, structural audit of integer storage,
//! and digests. This is the trusted base of every value comparison in the simulator.

use crate::simalloc;
use dashu_base::Sign;
use dashu_float::{round::Round, FBig};
use dashu_int::{IBig, UBig, Word};
use dashu_ratio::{RBig, Relaxed};
use num_bigint::{BigInt, BigUint};

pub const WORD_BYTES: usize = core::mem::size_of::<Word>();

// ---------------------------------------------------------------- digest
#[derive(Clone, Copy)]
pub struct Dig(pub u64);

impl Dig {
    pub fn new() -> Dig {
        Dig(0xcbf29ce484222325)
    }
    #[inline]
    pub fn byte(&mut self, b: u8) {
        self.0 = (self.0 ^ b as u64).wrapping_mul(0x100000001b3);
    }
    #[inline]
    pub fn u64(&mut self, x: u64) {
        // mix whole words: cheaper than byte-wise FNV and good enough for change detection
        let mut z = self.0 ^ x.wrapping_mul(0x9E3779B97F4A7C15);
        z = (z ^ (z >> 32)).wrapping_mul(0xD6E8FEB86659FD93);
        self.0 = z ^ (z >> 29);
    }
    pub fn bytes(&mut self, bs: &[u8]) {
        self.u64(bs.len() as u64);
        for c in bs.chunks(8) {
            let mut w = [0u8; 8];
            w[..c.len()].copy_from_slice(c);
            self.u64(u64::from_le_bytes(w));
        }
    }
    pub fn i64(&mut self, x: i64) {
        self.u64(x as u64)
    }
    /// sign + magnitude, independent of the word size (little-endian bytes, trailing zeros ignored)
    pub fn int(&mut self, sign: Sign, words: &[Word]) {
        self.u64(if sign == Sign::Negative { 0x2d } else { 0x2b });
        // canonical byte length
        let mut nbytes = words.len() * WORD_BYTES;
        while nbytes > 0 {
            let w = words[(nbytes - 1) / WORD_BYTES];
            let b = (w >> (8 * ((nbytes - 1) % WORD_BYTES))) as u8;
            if b != 0 {
                break;
            }
            nbytes -= 1;
        }
        self.u64(nbytes as u64);
        let mut acc = 0u64;
        for i in 0..nbytes {
            let w = words[i / WORD_BYTES];
            let b = (w >> (8 * (i % WORD_BYTES))) as u8;
            acc |= (b as u64) << (8 * (i % 8));
            if i % 8 == 7 {
                self.u64(acc);
                acc = 0;
            }
        }
        if nbytes % 8 != 0 {
            self.u64(acc);
        }
    }
    pub fn finish(self) -> u64 {
        self.0
    }
}

// ---------------------------------------------------------------- exact values
pub fn words_to_biguint(words: &[Word]) -> BigUint {
    let mut bytes = Vec::with_capacity(words.len() * WORD_BYTES);
    for w in words {
        bytes.extend_from_slice(&w.to_le_bytes());
    }
    BigUint::from_bytes_le(&bytes)
}

pub fn ibig_to_bigint(x: &IBig) -> BigInt {
    let (s, w) = x.as_sign_words();
    let m = BigInt::from(words_to_biguint(w));
    if s == Sign::Negative {
        -m
    } else {
        m
    }
}

pub fn ubig_to_bigint(x: &UBig) -> BigInt {
    BigInt::from(words_to_biguint(x.as_words()))
}

pub fn le_bytes_of_words(words: &[Word]) -> Vec<u8> {
    let mut bytes = Vec::with_capacity(words.len() * WORD_BYTES);
    for w in words {
        bytes.extend_from_slice(&w.to_le_bytes());
    }
    while bytes.last() == Some(&0) {
        bytes.pop();
    }
    bytes
}

pub fn hex_of_int(sign: Sign, words: &[Word]) -> String {
    let bytes = le_bytes_of_words(words);
    let mut s = String::with_capacity(bytes.len() * 2 + 2);
    if sign == Sign::Negative {
        s.push('-');
    }
    if bytes.is_empty() {
        s.push('0');
        return s;
    }
    let mut first = true;
    for b in bytes.iter().rev() {
        if first {
            s.push_str(&format!("{:x}", b));
            first = false;
        } else {
            s.push_str(&format!("{:02x}", b));
        }
    }
    s
}

pub fn hex_ibig(x: &IBig) -> String {
    let (s, w) = x.as_sign_words();
    hex_of_int(s, w)
}
pub fn hex_ubig(x: &UBig) -> String {
    hex_of_int(Sign::Positive, x.as_words())
}

/// Rebuild words for this build's word size from little-endian bytes.
pub fn words_from_le_bytes(bytes: &[u8]) -> Vec<Word> {
    let mut v = Vec::with_capacity(bytes.len() / WORD_BYTES + 1);
    for c in bytes.chunks(WORD_BYTES) {
        let mut w = [0u8; WORD_BYTES];
        w[..c.len()].copy_from_slice(c);
        v.push(Word::from_le_bytes(w));
    }
    v
}

// ---------------------------------------------------------------- layout classes & audit
#[derive(Clone, Copy, Debug, PartialEq, Eq, Hash, PartialOrd, Ord)]
pub enum Layout {
    Zero,
    In1,
    In2,
    /// heap with bucketed length: 3, 4..=8, 9..=32, 33..
    Heap(u8),
    Static,
    Anomalous,
}

impl Layout {
    pub fn code(self) -> u8 {
        match self {
            Layout::Zero => b'0',
            Layout::In1 => b'1',
            Layout::In2 => b'2',
            Layout::Heap(k) => b'a' + k,
            Layout::Static => b'S',
            Layout::Anomalous => b'!',
        }
    }
    pub fn is_heap(self) -> bool {
        matches!(self, Layout::Heap(_))
    }
}

fn heap_bucket(len: usize) -> u8 {
    match len {
        0..=3 => 0,
        4..=8 => 1,
        9..=32 => 2,
        _ => 3,
    }
}

#[derive(Clone, Copy, Debug, PartialEq, Eq)]
pub enum StructViolation {
    NotInline,
    LeadingZero,
    Capacity,
    NegativeZero,
    Dangling,
    StaticAlias,
    SharedBuffer,
}

impl StructViolation {
    pub fn name(self) -> &'static str {
        match self {
            StructViolation::NotInline => "struct.not_inline",
            StructViolation::LeadingZero => "struct.leading_zero",
            StructViolation::Capacity => "struct.capacity",
            StructViolation::NegativeZero => "struct.negative_zero",
            StructViolation::Dangling => "heap.dangling",
            StructViolation::StaticAlias => "heap.static_alias",
            StructViolation::SharedBuffer => "heap.shared_buffer",
        }
    }
}

/// Address ranges of the static bank (words of `static_ubig!` values); set once at start-up.
static mut STATIC_RANGES: Vec<(usize, usize)> = Vec::new();

pub fn register_static(words: &[Word]) {
    // SAFETY: called during single-threaded start-up only
    #[allow(static_mut_refs)]
    unsafe {
        STATIC_RANGES.push((words.as_ptr() as usize, words.len() * WORD_BYTES));
    }
}

fn in_static(p: usize) -> bool {
    // SAFETY: read-only after start-up
    #[allow(static_mut_refs)]
    unsafe {
        STATIC_RANGES.iter().any(|&(b, n)| p >= b && p < b + n)
    }
}

pub fn max_compact_capacity(len: usize) -> usize {
    len + len / 4 + 4
}

pub struct IntAudit {
    pub layout: Layout,
    /// base address of the owned heap block, if any
    pub block: Option<usize>,
    pub violation: Option<StructViolation>,
}

/// Structural audit of one integer component located at `holder` (address of the UBig/IBig value,
/// `holder_size` bytes). `owned`: the value is owned by the pool (must not alias static memory).
pub fn audit_int(holder: usize, holder_size: usize, sign: Sign, words: &[Word], owned: bool) -> IntAudit {
    let len = words.len();
    let p = words.as_ptr() as usize;
    let mut v = None;
    let mut block = None;
    let layout;
    if len == 0 {
        if sign == Sign::Negative {
            v = Some(StructViolation::NegativeZero);
        }
        if simalloc::HAS_REGISTRY && simalloc::find_block(p).is_some() {
            v = v.or(Some(StructViolation::NotInline));
        }
        layout = Layout::Zero;
    } else if len <= 2 {
        let inside = p >= holder && p + len * WORD_BYTES <= holder + holder_size;
        if !inside {
            v = Some(StructViolation::NotInline);
            if simalloc::HAS_REGISTRY {
                block = simalloc::find_block(p).map(|b| b.user);
            }
        }
        if words[len - 1] == 0 {
            v = v.or(Some(StructViolation::LeadingZero));
        }
        layout = if v.is_some() {
            Layout::Anomalous
        } else if len == 1 {
            Layout::In1
        } else {
            Layout::In2
        };
    } else {
        if in_static(p) {
            if owned {
                v = Some(StructViolation::StaticAlias);
            }
            layout = Layout::Static;
        } else if simalloc::HAS_REGISTRY {
            match simalloc::find_block(p) {
                None => {
                    v = Some(StructViolation::Dangling);
                    layout = Layout::Anomalous;
                }
                Some(b) => {
                    block = Some(b.user);
                    let cap = b.size / WORD_BYTES;
                    if b.size % WORD_BYTES != 0 || cap < len || cap > max_compact_capacity(len) {
                        v = Some(StructViolation::Capacity);
                    }
                    layout = Layout::Heap(heap_bucket(len));
                }
            }
        } else {
            layout = Layout::Heap(heap_bucket(len));
        }
        if v.is_none() && words[len - 1] == 0 {
            v = Some(StructViolation::LeadingZero);
        }
    }
    IntAudit { layout, block, violation: v }
}

pub fn layout_of_ibig(x: &IBig) -> Layout {
    let (s, w) = x.as_sign_words();
    audit_int(x as *const IBig as usize, core::mem::size_of::<IBig>(), s, w, false).layout
}
pub fn layout_of_ubig(x: &UBig) -> Layout {
    layout_of_ibig(x.as_ibig())
}

// ---------------------------------------------------------------- composite read-back
pub fn dig_ubig(d: &mut Dig, x: &UBig) {
    d.int(Sign::Positive, x.as_words());
}
pub fn dig_ibig(d: &mut Dig, x: &IBig) {
    let (s, w) = x.as_sign_words();
    d.int(s, w);
}
pub fn dig_fbig<R: Round, const B: Word>(d: &mut Dig, x: &FBig<R, B>) {
    dig_ibig(d, x.repr().significand());
    d.i64(x.repr().exponent() as i64);
    d.u64(x.precision() as u64);
}
pub fn dig_rbig(d: &mut Dig, x: &RBig) {
    dig_ibig(d, x.numerator());
    dig_ubig(d, x.denominator());
}
pub fn dig_relaxed(d: &mut Dig, x: &Relaxed) {
    dig_ibig(d, x.numerator());
    dig_ubig(d, x.denominator());
}

pub fn text_fbig<R: Round, const B: Word>(x: &FBig<R, B>) -> String {
    format!("{}*{}^{}@{}", hex_ibig(x.repr().significand()), B, x.repr().exponent(), x.precision())
}
pub fn text_rbig(x: &RBig) -> String {
    format!("{}/{}", hex_ibig(x.numerator()), hex_ubig(x.denominator()))
}
pub fn text_relaxed(x: &Relaxed) -> String {
    format!("{}/{}", hex_ibig(x.numerator()), hex_ubig(x.denominator()))
}

pub fn self_test() {
    let x = UBig::from_words(&words_from_le_bytes(&[1, 2, 3, 4, 5, 6, 7, 8, 9, 10, 11, 12, 13, 14, 15, 16, 17]));
    let b = ubig_to_bigint(&x);
    assert_eq!(b.to_string(), "5806146055028818284759215385528282317313");
    assert_eq!(hex_ubig(&x), "11100f0e0d0c0b0a090807060504030201");
    assert_eq!(hex_ubig(&UBig::ZERO), "0");
    let mut d1 = Dig::new();
    dig_ubig(&mut d1, &x);
    let mut d2 = Dig::new();
    d2.int(Sign::Positive, &words_from_le_bytes(&[1, 2, 3, 4, 5, 6, 7, 8, 9, 10, 11, 12, 13, 14, 15, 16, 17, 0, 0, 0]));
    assert_eq!(d1.0, d2.0);
    let neg = IBig::from(-5);
    assert_eq!(ibig_to_bigint(&neg), BigInt::from(-5));
}
