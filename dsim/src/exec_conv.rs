//! Conversions that dashu offers through several routes (a `to_*` method with an Exact/Inexact verdict and
//! `TryFrom` impls with their own code): `*.asint` (to integers) and `*.asf` (to f32 / f64).
//! Every form reduces to "the lossless result, or refused"; forms whose target type cannot hold a value that
//! another target can (negative into unsigned, too large for the primitive) are skipped, not compared.

use crate::ops::Op;
use crate::view::{hex_ibig, hex_ubig, text_fbig, text_rbig, text_relaxed};
use crate::world::*;
#[allow(unused_imports)]
use dashu_base::{Approximation, BitTest, Sign, Signed};
use dashu_float::round::Round;
use dashu_float::FBig;
use dashu_int::{DoubleWord, IBig, UBig, Word};
use dashu_ratio::{RBig, Relaxed};

pub fn handles(rest: &str) -> bool {
    rest == "asint" || rest == "asf" || rest == "fromf" || rest == "const"
}

/// the primitive float an op carries: `n` holds the bits, `m` picks f64 / f32 and a few special shapes
fn float_of(op: &Op) -> (f64, f32, bool) {
    let bits = op.n as u64;
    let d = match op.m.unsigned_abs() % 8 {
        0 => f64::from_bits(bits),
        1 => (bits % 100_000) as f64 * 0.25,
        2 => -((bits % 1_000_000) as f64),
        3 => f64::from_bits(bits & 0x800f_ffff_ffff_ffff), // subnormals
        4 => f64::from_bits((bits & 0x800f_ffff_ffff_ffff) | 0x7fe0_0000_0000_0000), // near the top
        5 => [0.0, -0.0, 1.0, -1.0, 0.5, f64::MAX, f64::MIN_POSITIVE, f64::INFINITY, f64::NEG_INFINITY, f64::NAN][(bits % 10) as usize],
        6 => ((bits >> 11) as f64) * 8.0,
        _ => f64::from_bits(bits ^ 0x4000_0000_0000_0000),
    };
    (d, d as f32, op.m.unsigned_abs() % 16 >= 8)
}

fn put_int(w: &mut World, env: &mut Env, dst: usize, v: Option<IBig>) {
    env.emit_u64("int", v.is_some() as u64);
    if let Some(v) = v {
        w.i[dst] = v;
        env.res(Pool::I, dst);
    }
}

/// `reference`: the integer value if the number is one (computed by the harness from read-back parts)
fn prim_form(form: u16, reference: &Option<IBig>, env: &mut Env, got: impl FnOnce(u16) -> Option<IBig>) -> Option<Option<IBig>> {
    // forms 3.. : primitive targets; skip when the integer exists but does not fit the target
    let (lo, hi): (IBig, IBig) = match form {
        3 => (IBig::from(i64::MIN), IBig::from(i64::MAX)),
        4 => (IBig::ZERO, IBig::from(u8::MAX)),
        5 => (IBig::from(i16::MIN), IBig::from(i16::MAX)),
        6 => (IBig::ZERO, IBig::from(u128::MAX)),
        _ => (IBig::from(i128::MIN), IBig::from(i128::MAX)),
    };
    if let Some(v) = reference {
        if *v < lo || *v > hi {
            env.skip();
            return None;
        }
    }
    Some(got(form))
}

fn float_asint<R: Round, const B: Word>(x: &FBig<R, B>, form: u16, env: &mut Env) -> Option<Option<IBig>> {
    if !x.repr().is_finite() || x.repr().exponent().unsigned_abs() > 4000 || x.repr().significand().bit_len() > 20000 {
        env.skip();
        return None;
    }
    // harness-side reference: integer iff exponent >= 0 (normalised representation)
    let reference: Option<IBig> = if x.repr().exponent() >= 0 {
        Some(x.repr().significand() * IBig::from(B).pow(x.repr().exponent() as usize))
    } else {
        None
    };
    match form % 8 {
        0 => Some(match x.to_int() {
            Approximation::Exact(v) => Some(v),
            Approximation::Inexact(..) => None,
        }),
        1 => Some(IBig::try_from(x.clone()).ok()),
        2 => {
            if x.repr().significand().sign() == Sign::Negative {
                env.skip();
                return None;
            }
            Some(UBig::try_from(x.clone()).ok().map(IBig::from))
        }
        f => prim_form(f, &reference, env, |f| match f {
            3 => i64::try_from(x.clone()).ok().map(IBig::from),
            4 => u8::try_from(x.clone()).ok().map(IBig::from),
            5 => i16::try_from(x.clone()).ok().map(IBig::from),
            6 => u128::try_from(x.clone()).ok().map(IBig::from),
            _ => i128::try_from(x.clone()).ok().map(IBig::from),
        }),
    }
}

macro_rules! ratio_asint {
    ($x:expr, $form:expr, $env:expr) => {{
        let x = $x;
        let env: &mut Env = $env;
        if x.numerator().bit_len() > 20000 || x.denominator().bit_len() > 20000 {
            env.skip();
            None
        } else {
            // harness-side reference: integer iff the denominator divides the numerator
            let reference: Option<IBig> = {
                let d = IBig::from(x.denominator().clone());
                if (x.numerator() % &d).is_zero() {
                    Some(x.numerator() / &d)
                } else {
                    None
                }
            };
            match $form % 8 {
                0 => Some(match x.to_int() {
                    Approximation::Exact(v) => Some(v),
                    Approximation::Inexact(..) => None,
                }),
                1 => Some(IBig::try_from(x.clone()).ok()),
                2 => {
                    if x.numerator().sign() == Sign::Negative && !x.numerator().is_zero() {
                        env.skip();
                        None
                    } else {
                        Some(UBig::try_from(x.clone()).ok().map(IBig::from))
                    }
                }
                f => prim_form(f, &reference, env, |f| match f {
                    3 => i64::try_from(x.clone()).ok().map(IBig::from),
                    4 => u8::try_from(x.clone()).ok().map(IBig::from),
                    5 => i16::try_from(x.clone()).ok().map(IBig::from),
                    6 => u128::try_from(x.clone()).ok().map(IBig::from),
                    _ => i128::try_from(x.clone()).ok().map(IBig::from),
                }),
            }
        }
    }};
}

/// forms 0/1: f64 via method / TryFrom; forms 2/3: f32. Result: the bits when lossless, else refused.
fn put_float(env: &mut Env, v: Option<u64>) {
    env.emit_u64("lossless", v.is_some() as u64);
    if let Some(b) = v {
        env.emit_u64("bits", b);
    }
}
fn exact64(r: Approximation<f64, impl Sized>) -> Option<u64> {
    match r {
        Approximation::Exact(v) => Some(v.to_bits()),
        Approximation::Inexact(..) => None,
    }
}
fn exact32(r: Approximation<f32, impl Sized>) -> Option<u64> {
    match r {
        Approximation::Exact(v) => Some(v.to_bits() as u64),
        Approximation::Inexact(..) => None,
    }
}

/// `asf`: forms 0/1 target f64, forms 2/3 target f32. Even forms call the `to_*` method only; odd forms also call
/// `TryFrom` (own code) and hold it to the documented rule "Ok only if lossless": Ok(v) implies `to_*` == Exact(v).
/// (The converse is not promised: integers refuse some exactly representable values.) Both forms emit the method's
/// verdict, so the group compares panic behaviour; the rule itself reports through `env.violation` in C15 runs.
macro_rules! asf {
    ($x:expr, $form:expr, $env:expr, $desc:expr) => {{
        let x = $x;
        let env: &mut Env = $env;
        if $form % 4 < 2 {
            let m = exact64(x.to_f64());
            if $form % 2 == 1 {
                let t = f64::try_from(x.clone()).ok().map(f64::to_bits);
                if env.forms_oracle && t.is_some() && t != m {
                    let d = untracked(|| format!("f64::try_from({}) = Ok(bits {:x}) but to_f64 says {:?}", $desc, t.unwrap(), m));
                    env.violation = Some(untracked(|| ("form.conversion_disagree".to_string(), d)));
                }
            }
            put_float(env, m);
        } else {
            let m = exact32(x.to_f32());
            if $form % 2 == 1 {
                let t = f32::try_from(x.clone()).ok().map(|v| v.to_bits() as u64);
                if env.forms_oracle && t.is_some() && t != m {
                    let d = untracked(|| format!("f32::try_from({}) = Ok(bits {:x}) but to_f32 says {:?}", $desc, t.unwrap(), m));
                    env.violation = Some(untracked(|| ("form.conversion_disagree".to_string(), d)));
                }
            }
            put_float(env, m);
        }
    }};
}

pub fn exec(w: &mut World, op: &Op, fam: &str, rest: &str, env: &mut Env) {
    let (a, dst) = (ix(op.a), ix(op.dst));
    let form = op.form & 255;
    match (fam, rest) {
        ("f", "asint") => {
            if let Some(v) = float_asint(&w.f[a].clone(), form, env) {
                put_int(w, env, dst, v);
            }
        }
        ("d", "asint") => {
            if let Some(v) = float_asint(&w.d[a].clone(), form, env) {
                put_int(w, env, dst, v);
            }
        }
        ("r", "asint") => {
            let x: RBig = w.r[a].clone();
            if let Some(v) = ratio_asint!(&x, form, env) {
                put_int(w, env, dst, v);
            }
        }
        ("x", "asint") => {
            let x: Relaxed = w.x[a].clone();
            if let Some(v) = ratio_asint!(&x, form, env) {
                put_int(w, env, dst, v);
            }
        }
        // constructors typed in Word / DoubleWord and the const constructors (their own reduction / normalisation /
        // digit-counting loops); values below 2^32 resp. 2^64 so that every build is handed the same number
        ("u", "const") => {
            w.u[dst] = match form % 5 {
                0 => UBig::from_word((op.n as u32) as Word),
                1 => UBig::from_dword((op.n as u64) as DoubleWord),
                2 => UBig::default(),
                3 => UBig::from(op.n & 1 == 1),
                _ => UBig::from_dword(((op.n as u64) | (1 << 63)) as DoubleWord),
            };
            env.res(Pool::U, dst);
        }
        ("i", "const") => {
            let sign = if op.m & 1 == 1 { Sign::Negative } else { Sign::Positive };
            w.i[dst] = match form % 4 {
                0 => IBig::from_parts_const(sign, (op.n as u64) as DoubleWord),
                1 => IBig::default(),
                2 => IBig::from(op.n & 1 == 1),
                _ => IBig::from_parts_const(sign, (op.n as u32) as DoubleWord),
            };
            env.res(Pool::I, dst);
        }
        ("r", "const") | ("x", "const") => {
            let sign = if op.m & 1 == 1 { Sign::Negative } else { Sign::Positive };
            let c = 1 + (op.m.unsigned_abs() >> 1) % 100_000;
            let (n0, d0) = ((op.n as u64) & 0xffff_ffff, ((op.n as u64) >> 32) & 0x7fff_ffff);
            let (n, d) = match form % 4 {
                0 => (n0 * c, d0 * c),
                1 => (n0, d0),
                2 => (n0 * c, c),
                _ => (c, d0 * c),
            };
            if fam == "r" {
                w.r[dst] = RBig::from_parts_const(sign, n as DoubleWord, d as DoubleWord);
                env.res(Pool::R, dst);
            } else {
                w.x[dst] = Relaxed::from_parts_const(sign, n as DoubleWord, d as DoubleWord);
                env.res(Pool::X, dst);
            }
        }
        ("f", "const") | ("d", "const") => {
            let sign = if op.m & 1 == 1 { Sign::Negative } else { Sign::Positive };
            let k = (op.m.unsigned_abs() >> 1) as usize;
            let raw = op.n as u64;
            let sig: u64 = match form % 5 {
                0 => raw,
                1 => raw | (1 << 63),
                2 => (raw % 1_000_000) * 1_000_000_000_000,
                3 => (raw >> 20) << 20,
                _ => u64::MAX - raw % 1000,
            };
            let exp = (k % 41) as isize - 20;
            let minp = match (k / 41) % 3 {
                0 => None,
                1 => Some(1 + k % 30),
                _ => Some(0),
            };
            if fam == "f" {
                w.f[dst] = FBig::from_parts_const(sign, sig as DoubleWord, exp, minp);
                env.res(Pool::F, dst);
            } else {
                w.d[dst] = FBig::from_parts_const(sign, sig as DoubleWord, exp, minp);
                env.res(Pool::D, dst);
            }
        }
        ("u", "fromf") => {
            let (d, s, single) = float_of(op);
            match if single { UBig::try_from(s) } else { UBig::try_from(d) } {
                Ok(v) => {
                    w.u[dst] = v;
                    env.res(Pool::U, dst);
                }
                Err(_) => env.emit_u64("refused", 1),
            }
        }
        ("i", "fromf") => {
            let (d, s, single) = float_of(op);
            match if single { IBig::try_from(s) } else { IBig::try_from(d) } {
                Ok(v) => {
                    w.i[dst] = v;
                    env.res(Pool::I, dst);
                }
                Err(_) => env.emit_u64("refused", 1),
            }
        }
        ("f", "fromf") => {
            let (d, s, single) = float_of(op);
            match if single { FBig::<dashu_float::round::mode::Zero, 2>::try_from(s) } else { FBig::<dashu_float::round::mode::Zero, 2>::try_from(d) } {
                Ok(v) => {
                    w.f[dst] = v;
                    env.res(Pool::F, dst);
                }
                Err(_) => env.emit_u64("refused", 1),
            }
        }
        ("r", "fromf") | ("x", "fromf") => {
            let (d, s, single) = float_of(op);
            if fam == "r" {
                let v = match form % 3 {
                    0 => if single { RBig::try_from(s).ok() } else { RBig::try_from(d).ok() },
                    1 => if single { RBig::simplest_from_f32(s) } else { RBig::simplest_from_f64(d) },
                    _ => (if single { RBig::try_from(s) } else { RBig::try_from(d) }).ok().map(|v| v.relax().canonicalize()),
                };
                match v {
                    Some(v) => {
                        w.r[dst] = v;
                        env.res(Pool::R, dst);
                    }
                    None => env.emit_u64("refused", 1),
                }
            } else {
                match if single { Relaxed::try_from(s) } else { Relaxed::try_from(d) } {
                    Ok(v) => {
                        w.x[dst] = v;
                        env.res(Pool::X, dst);
                    }
                    Err(_) => env.emit_u64("refused", 1),
                }
            }
        }
        ("u", "asf") => asf!(&w.u[a], form, env, hex_ubig(&w.u[a])),
        ("i", "asf") => asf!(&w.i[a], form, env, hex_ibig(&w.i[a])),
        ("f", "asf") => {
            let x = &w.f[a];
            if !x.repr().is_finite() || x.repr().exponent().unsigned_abs() > 4000 {
                return env.skip();
            }
            asf!(x, form, env, text_fbig(x))
        }
        ("r", "asf") => asf!(&w.r[a], form, env, text_rbig(&w.r[a])),
        ("x", "asf") => asf!(&w.x[a], form, env, text_relaxed(&w.x[a])),
        _ => untracked(|| panic!("dsim: unknown conversion op {}.{}", fam, rest)),
    }
}
