//! splitmix64 + xoshiro256** — our own ~30 lines so that no crate upgrade can change streams.

#[inline]
pub fn splitmix64(state: &mut u64) -> u64 {
    *state = state.wrapping_add(0x9E3779B97F4A7C15);
    let mut z = *state;
    z = (z ^ (z >> 30)).wrapping_mul(0xBF58476D1CE4E5B9);
    z = (z ^ (z >> 27)).wrapping_mul(0x94D049BB133111EB);
    z ^ (z >> 31)
}

/// Derive the seed of run `index` of batch (`prop`, `tier-independent`) from VERIF_SEED.
pub fn run_seed(verif_seed: u64, prop: &str, index: u64) -> u64 {
    let mut s = verif_seed ^ 0xD5A5_1157_0000_0000;
    let mut h = splitmix64(&mut s);
    for b in prop.bytes() {
        s ^= b as u64;
        h ^= splitmix64(&mut s);
    }
    s ^= index.wrapping_mul(0x2545F4914F6CDD1D);
    h ^ splitmix64(&mut s)
}

#[derive(Clone)]
pub struct Rng {
    s: [u64; 4],
}

impl Rng {
    pub fn new(seed: u64) -> Rng {
        let mut st = seed;
        let s = [splitmix64(&mut st), splitmix64(&mut st), splitmix64(&mut st), splitmix64(&mut st)];
        Rng { s }
    }
    #[inline]
    pub fn next(&mut self) -> u64 {
        let r = self.s[1].wrapping_mul(5).rotate_left(7).wrapping_mul(9);
        let t = self.s[1] << 17;
        self.s[2] ^= self.s[0];
        self.s[3] ^= self.s[1];
        self.s[1] ^= self.s[2];
        self.s[0] ^= self.s[3];
        self.s[2] ^= t;
        self.s[3] = self.s[3].rotate_left(45);
        r
    }
    /// uniform in 0..n (n > 0); tiny modulo bias is irrelevant here
    #[inline]
    pub fn below(&mut self, n: u64) -> u64 {
        debug_assert!(n > 0);
        self.next() % n
    }
    #[inline]
    pub fn range(&mut self, lo: i64, hi: i64) -> i64 {
        lo + self.below((hi - lo + 1) as u64) as i64
    }
    /// true with probability num/den
    #[inline]
    pub fn chance(&mut self, num: u64, den: u64) -> bool {
        self.below(den) < num
    }
    pub fn pick<T: Copy>(&mut self, xs: &[T]) -> T {
        xs[self.below(xs.len() as u64) as usize]
    }
    pub fn bytes(&mut self, n: usize) -> Vec<u8> {
        let mut v = Vec::with_capacity(n);
        while v.len() < n {
            let x = self.next().to_le_bytes();
            let k = (n - v.len()).min(8);
            v.extend_from_slice(&x[..k]);
        }
        v
    }
}

pub fn self_test() {
    // reference vector: xoshiro256** seeded through splitmix64(0)
    let mut st = 0u64;
    assert_eq!(splitmix64(&mut st), 0xE220A8397B1DCDAF);
    assert_eq!(splitmix64(&mut st), 0x6E789E6AA1B965F4);
    let mut r = Rng::new(0);
    let a = r.next();
    let mut r2 = Rng::new(0);
    assert_eq!(a, r2.next());
    assert_eq!(a, 0x99EC5F36CB75F2B4);
}
