//! Executor: RBig / Relaxed operations (the same code for both through a macro).

use crate::ops::Op;
use crate::world::*;
use dashu_base::UnsignedAbs as _UA;
use dashu_base::{Abs, Approximation, BitTest, DivEuclid, DivRemEuclid, Inverse, RemEuclid, Sign, Signed};
use dashu_int::{IBig, UBig};
use dashu_ratio::{RBig, Relaxed};
use std::fmt::Write as _;

struct W1<'a, T> {
    p: &'a mut Vec<T>,
}

pub struct OpLite {
    pub a: u8,
    pub b: u8,
    pub dst: u8,
    pub form: u16,
}

const MAXB: usize = if cfg!(miri) { 600 } else { 3000 };

macro_rules! exec_rational {
    ($fname:ident, $T:ty, $pool:ident, $PID:expr) => {
        pub fn $fname(w: &mut World, op: &Op, rest: &str, env: &mut Env) {
            let pid = $PID;
            let (a, b, dst) = (ix(op.a), ix(op.b), ix(op.dst));
            let take = op.form & 256 != 0;
            let form = op.form & 255;
            match rest {
                "lit" => {
                    // numerator = first half of the literal, denominator = second half (+1 so it is never zero)
                    let h = op.lit.len() / 2;
                    let num = IBig::from_parts(
                        if op.m & 1 == 1 { Sign::Negative } else { Sign::Positive },
                        UBig::from_le_bytes(&op.lit[..h]),
                    );
                    let den = UBig::from_le_bytes(&op.lit[h..]) + UBig::ONE;
                    // n: shared cofactor so that reduction has work to do
                    let k = UBig::from(op.n.unsigned_abs() % 1000 + 1);
                    w.$pool[dst] = match form % 3 {
                        0 => <$T>::from_parts(num * &k, den * &k),
                        1 => <$T>::from_parts_signed(num * &k, -IBig::from(den * &k)),
                        _ => <$T>::from_parts(num, den),
                    };
                    env.res(pid, dst);
                }
                "fromparts" => {
                    // from live pool integers (a zero denominator panics: documented)
                    w.$pool[dst] = match form % 2 {
                        0 => <$T>::from_parts(w.i[a].clone(), w.u[b].clone()),
                        _ => <$T>::from_parts_signed(w.i[a].clone(), w.i[b].clone()),
                    };
                    env.res(pid, dst);
                }
                "add" | "sub" | "mul" | "div" | "rem" => {
                    let sz = |v: &$T| v.numerator().bit_len() + v.denominator().bit_len();
                    if sz(&w.$pool[a]) + sz(&w.$pool[b]) > 2 * MAXB {
                        return env.skip();
                    }
                    let ww = W1 { p: &mut w.$pool };
                    let mut ww = ww;
                    let opr = &OpLite { a: op.a, b: op.b, dst: op.dst, form: op.form };
                    match rest {
                        "add" => binop_forms!(ww, env, opr, p, pid, +, +=),
                        "sub" => binop_forms!(ww, env, opr, p, pid, -, -=),
                        "mul" => binop_forms!(ww, env, opr, p, pid, *, *=),
                        "div" => binop_forms!(ww, env, opr, p, pid, /, /=),
                        _ => binop_forms!(ww, env, opr, p, pid, %, %=),
                    }
                }
                "addi" | "subi" | "muli" | "divi" => {
                    // rational (op) IBig on either side; reference forms convert first
                    let x = &w.$pool[a];
                    if x.numerator().bit_len() + x.denominator().bit_len() > MAXB {
                        return env.skip();
                    }
                    macro_rules! ri {
                        ($tr:tt) => {{
                            let yi = &w.i[b];
                            match form % 10 {
                                0 => x.clone() $tr yi.clone(),
                                1 => x $tr yi.clone(),
                                2 => x.clone() $tr yi,
                                3 => x $tr yi,
                                4 => x $tr &<$T>::from(yi.clone()),
                                5 => return rational_commuted(w, pid, dst, env, yi.clone() $tr x.clone()),
                                6 => return rational_commuted(w, pid, dst, env, yi $tr x.clone()),
                                7 => return rational_commuted(w, pid, dst, env, yi.clone() $tr x),
                                8 => return rational_commuted(w, pid, dst, env, yi $tr x),
                                _ => return rational_commuted(w, pid, dst, env, &<$T>::from(yi.clone()) $tr x),
                            }
                        }};
                    }
                    let r: $T = match rest {
                        "addi" => ri!(+),
                        "subi" => ri!(-),
                        "muli" => ri!(*),
                        _ => ri!(/),
                    };
                    w.$pool[dst] = r;
                    env.res(pid, dst);
                }
                "addu" | "subu" | "mulu" | "divu" => {
                    // rational (op) UBig on either side
                    let x = &w.$pool[a];
                    if x.numerator().bit_len() + x.denominator().bit_len() > MAXB {
                        return env.skip();
                    }
                    macro_rules! ru {
                        ($tr:tt) => {{
                            let yu = &w.u[b];
                            match form % 10 {
                                0 => x.clone() $tr yu.clone(),
                                1 => x $tr yu.clone(),
                                2 => x.clone() $tr yu,
                                3 => x $tr yu,
                                4 => x $tr &<$T>::from(yu.clone()),
                                5 => return rational_commuted(w, pid, dst, env, yu.clone() $tr x.clone()),
                                6 => return rational_commuted(w, pid, dst, env, yu $tr x.clone()),
                                7 => return rational_commuted(w, pid, dst, env, yu.clone() $tr x),
                                8 => return rational_commuted(w, pid, dst, env, yu $tr x),
                                _ => return rational_commuted(w, pid, dst, env, &<$T>::from(yu.clone()) $tr x),
                            }
                        }};
                    }
                    let r: $T = match rest {
                        "addu" => ru!(+),
                        "subu" => ru!(-),
                        "mulu" => ru!(*),
                        _ => ru!(/),
                    };
                    w.$pool[dst] = r;
                    env.res(pid, dst);
                }
                "pow" => {
                    let x = &w.$pool[a];
                    let n = op.n.unsigned_abs() as usize % 9;
                    if (x.numerator().bit_len() + x.denominator().bit_len()) * n.max(1) > MAXB * 2 {
                        return env.skip();
                    }
                    w.$pool[dst] = x.pow(n);
                    env.res(pid, dst);
                }
                "sqr" => {
                    w.$pool[dst] = w.$pool[a].sqr();
                    env.res(pid, dst);
                }
                "cubic" => {
                    if w.$pool[a].numerator().bit_len() + w.$pool[a].denominator().bit_len() > MAXB {
                        return env.skip();
                    }
                    w.$pool[dst] = w.$pool[a].cubic();
                    env.res(pid, dst);
                }
                "inv" => {
                    w.$pool[dst] = match form % 2 {
                        0 => own!(w.$pool[a], take).inv(),
                        _ => (&w.$pool[a]).inv(),
                    };
                    env.res(pid, dst);
                }
                "neg" => {
                    w.$pool[dst] = match form % 2 {
                        0 => -own!(w.$pool[a], take),
                        _ => -&w.$pool[a],
                    };
                    env.res(pid, dst);
                }
                "abs" => {
                    w.$pool[dst] = own!(w.$pool[a], take).abs();
                    env.res(pid, dst);
                }
                "mulsign" => {
                    let s = if op.n & 1 == 1 { Sign::Negative } else { Sign::Positive };
                    w.$pool[dst] = own!(w.$pool[a], take) * s;
                    env.res(pid, dst);
                }
                "signum" => {
                    w.$pool[dst] = w.$pool[a].signum();
                    env.res(pid, dst);
                }
                "round" => {
                    let x = &w.$pool[a];
                    w.i[dst] = match form % 5 {
                        0 => x.trunc(),
                        1 => x.floor(),
                        2 => x.ceil(),
                        3 => x.round(),
                        _ => {
                            let (i, f) = x.clone().split_at_point();
                            w.$pool[dst] = f;
                            env.res(pid, dst);
                            i
                        }
                    };
                    env.res(Pool::I, dst);
                }
                "fract" => {
                    w.$pool[dst] = w.$pool[a].fract();
                    env.res(pid, dst);
                }
                "split" => {
                    // documented as equivalent: split_at_point() and (trunc(), fract()); to_int() gives the same parts
                    let d2 = (dst + 1) % NP;
                    let x = &w.$pool[a];
                    let (t, f): (IBig, $T) = match form % 3 {
                        0 => x.clone().split_at_point(),
                        1 => (x.trunc(), x.fract()),
                        _ => match x.to_int() {
                            Approximation::Exact(t) => (t, <$T>::ZERO),
                            Approximation::Inexact(t, f) => (t, f),
                        },
                    };
                    w.i[dst] = t;
                    w.$pool[d2] = f;
                    env.res(Pool::I, dst);
                    env.res(pid, d2);
                }
                "zeroize" => {
                    zeroize::Zeroize::zeroize(&mut w.$pool[a]);
                    env.res(pid, a);
                }
                "zeroes" => {
                    // zero (and the value itself) reached through the mixed operators, which build the fraction directly:
                    // k*m/m - k = 0/m', next to the canonical zero, and (v - k) + k next to v
                    let d2 = (dst + 1) % NP;
                    let m = &w.u[b] | UBig::ONE;
                    if m.bit_len() > 2000 || w.i[a].bit_len() > 2000 {
                        return env.skip();
                    }
                    let k = w.i[a].clone();
                    let v = <$T>::from_parts(&k * IBig::from(m.clone()), m.clone());
                    match form % 5 {
                        0 => {
                            w.$pool[dst] = v - k.clone();
                            w.$pool[d2] = <$T>::ZERO;
                        }
                        1 => {
                            w.$pool[dst] = &v - &k;
                            w.$pool[d2] = <$T>::ZERO;
                        }
                        2 => {
                            // unsigned integer on the right
                            let ku = k.clone().unsigned_abs();
                            let vu = <$T>::from_parts(IBig::from(&ku * &m), m.clone());
                            w.$pool[dst] = vu - ku;
                            w.$pool[d2] = <$T>::ZERO;
                        }
                        3 => {
                            w.$pool[dst] = k.clone() - v;
                            w.$pool[d2] = <$T>::ZERO;
                        }
                        _ => {
                            let x = w.$pool[ix(op.c)].clone();
                            let moved = (&x - &k) + &k;
                            w.$pool[dst] = moved;
                            w.$pool[d2] = x;
                        }
                    }
                    env.res(pid, dst);
                    env.res(pid, d2);
                }
                "toint" => {
                    let r = w.$pool[a].to_int();
                    env.emit_u64("exact", matches!(r, Approximation::Exact(_)) as u64);
                    w.i[dst] = r.value();
                    env.res(Pool::I, dst);
                }
                "fromint" => {
                    w.$pool[dst] = match form % 2 {
                        0 => <$T>::from(w.i[a].clone()),
                        _ => <$T>::from(w.u[a].clone()),
                    };
                    env.res(pid, dst);
                }
                "num" => {
                    w.i[dst] = w.$pool[a].numerator().clone();
                    env.res(Pool::I, dst);
                }
                "den" => {
                    w.u[dst] = w.$pool[a].denominator().clone();
                    env.res(Pool::U, dst);
                }
                "intoparts" => {
                    let (n, d) = own!(w.$pool[a], take).into_parts();
                    match form % 2 {
                        0 => {
                            w.$pool[dst] = <$T>::from_parts(n, d);
                            env.res(pid, dst);
                        }
                        _ => {
                            w.i[dst] = n;
                            w.u[dst] = d;
                            env.res(Pool::I, dst);
                            env.res(Pool::U, dst);
                        }
                    }
                }
                "diveuclid" => {
                    let sz = |v: &$T| v.numerator().bit_len() + v.denominator().bit_len();
                    if sz(&w.$pool[a]) + sz(&w.$pool[b]) > 2 * MAXB {
                        return env.skip();
                    }
                    let (q, r) = match form % 3 {
                        0 => w.$pool[a].clone().div_rem_euclid(w.$pool[b].clone()),
                        1 => (&w.$pool[a]).div_rem_euclid(&w.$pool[b]),
                        _ => ((&w.$pool[a]).div_euclid(&w.$pool[b]), (&w.$pool[a]).rem_euclid(&w.$pool[b])),
                    };
                    w.i[dst] = q;
                    w.$pool[dst] = r;
                    env.res(Pool::I, dst);
                    env.res(pid, dst);
                }
                "tofloat" => {
                    let prec = 1 + op.n.unsigned_abs() as usize % 200;
                    let x = &w.$pool[a];
                    if x.numerator().bit_len() + x.denominator().bit_len() > MAXB {
                        return env.skip();
                    }
                    match form % 2 {
                        0 => {
                            let r = x.to_float(prec);
                            env.emit_u64("exact", matches!(r, Approximation::Exact(_)) as u64);
                            w.f[dst] = r.value();
                            env.res(Pool::F, dst);
                        }
                        _ => {
                            let r = x.to_float(prec);
                            env.emit_u64("exact", matches!(r, Approximation::Exact(_)) as u64);
                            w.d[dst] = r.value();
                            env.res(Pool::D, dst);
                        }
                    }
                }
                "fromfloat" => {
                    let f = &w.f[a];
                    if !f.repr().is_finite() || f.repr().exponent().unsigned_abs() > 2000 {
                        return env.skip();
                    }
                    let r = if form % 2 == 0 {
                        <$T>::try_from(f.clone())
                    } else {
                        // the decimal pool: bases with an odd prime factor need the full reduction
                        let g = &w.d[a];
                        if !g.repr().is_finite() || g.repr().exponent().unsigned_abs() > 600 {
                            return env.skip();
                        }
                        <$T>::try_from(g.clone())
                    };
                    if let Ok(v) = r {
                        w.$pool[dst] = v;
                    } else {
                        env.emit_u64("refused", 1);
                    }
                    env.res(pid, dst);
                }
                "tof64" => {
                    let x = &w.$pool[a];
                    let r = x.to_f64();
                    // verdict: 0 exact, 1 / 2 inexact with the sign of the error
                    let verdict = |r: &Approximation<f64, Sign>| match r {
                        Approximation::Exact(_) => 0u64,
                        Approximation::Inexact(_, Sign::Positive) => 1,
                        Approximation::Inexact(_, Sign::Negative) => 2,
                    };
                    env.emit_u64("v64", verdict(&r));
                    env.emit_f64("f64", r.value());
                    env.emit_f64("fast", x.to_f64_fast());
                    let r = x.to_f32();
                    env.emit_u64(
                        "v32",
                        match &r {
                            Approximation::Exact(_) => 0,
                            Approximation::Inexact(_, Sign::Positive) => 1,
                            Approximation::Inexact(_, Sign::Negative) => 2,
                        },
                    );
                    env.emit_f32("f32", r.value());
                    env.emit_f32("fast32", x.to_f32_fast());
                }
                "parse" => {
                    // text from the literal bytes (ASCII); a malformed or zero-denominator input must be refused
                    let text = untracked(|| String::from_utf8_lossy(&op.lit).into_owned());
                    let r = match form % 2 {
                        0 => <$T>::from_str_radix(&text, 10),
                        _ => <$T>::from_str_with_radix_prefix(&text).map(|v| v.0),
                    };
                    untracked(|| drop(text));
                    match r {
                        Ok(v) => w.$pool[dst] = v,
                        Err(_) => env.emit_u64("refused", 1),
                    }
                    env.res(pid, dst);
                }
                "rt" => {
                    let x = &w.$pool[a];
                    if x.numerator().bit_len() + x.denominator().bit_len() > MAXB {
                        return env.skip();
                    }
                    let k = UBig::from_le_bytes(&op.lit) + UBig::ONE;
                    let r: $T = match form % 8 {
                        0 => {
                            let (n, d) = x.clone().into_parts();
                            <$T>::from_parts(n * &k, d * &k)
                        }
                        1 => x + <$T>::ZERO,
                        2 => x * <$T>::ONE,
                        3 => {
                            if x.is_zero() {
                                return env.skip();
                            }
                            x.clone().inv().inv()
                        }
                        4 => {
                            let y = <$T>::from(k.clone());
                            (x + &y) - &y
                        }
                        5 => {
                            let y = <$T>::from_parts(IBig::from(k.clone()), UBig::from(3u8));
                            (x * &y) / &y
                        }
                        6 => -(-x.clone()),
                        _ => {
                            let s = x.to_string();
                            <$T>::from_str_radix(&s, 10).unwrap()
                        }
                    };
                    w.$pool[dst] = r;
                    env.res(pid, dst);
                }
                "clone" => {
                    let c = w.$pool[a].clone();
                    w.$pool[dst] = c;
                    env.res(pid, dst);
                }
                "clonefrom" => {
                    if a == dst {
                        let c = w.$pool[a].clone();
                        w.$pool[dst].clone_from(&c);
                    } else {
                        let (d, s) = two_mut(&mut w.$pool, dst, a);
                        d.clone_from(s);
                    }
                    env.res(pid, dst);
                }
                "take" => {
                    let v = core::mem::take(&mut w.$pool[a]);
                    w.$pool[dst] = v;
                    env.res(pid, dst);
                }
                "swap" => {
                    w.$pool.swap(a, b);
                    env.res(pid, a);
                    env.res(pid, b);
                }
                "drop" => {
                    w.$pool[a] = <$T>::ZERO;
                    env.res(pid, a);
                }
                "str" => {
                    let radix = (op.n.unsigned_abs() % 35 + 2) as u32;
                    // Display is decimal only; other radixes are assembled from the components
                    let s = match form % 2 {
                        0 => w.$pool[a].to_string(),
                        _ => format!("{}/{}", w.$pool[a].numerator().in_radix(radix), w.$pool[a].denominator().in_radix(radix)),
                    };
                    env.emit_str("s", &s);
                    let r = if form % 2 == 0 { <$T>::from_str_radix(&s, 10) } else { <$T>::from_str_radix(&s, radix) };
                    match r {
                        Ok(v) => w.$pool[dst] = v,
                        Err(_) => env.emit_u64("noparse", 1),
                    }
                    env.res(pid, dst);
                }
                "fmt" => {
                    let x = &w.$pool[a];
                    let mut sink = Sink { env, bytes: 0 };
                    let r = match form % 4 {
                        0 => write!(sink, "{}", x),
                        1 => write!(sink, "{:?}", x),
                        2 => write!(sink, "{:#?}", x),
                        _ => write!(sink, "{:>60}", x),
                    };
                    let n = sink.bytes;
                    env.emit_u64("ok", r.is_ok() as u64);
                    env.emit_u64("len", n as u64);
                }
                "query" => {
                    let x = &w.$pool[a];
                    let y = &w.$pool[b];
                    env.emit_u64("eq", (x == y) as u64);
                    env.emit_ord("cmp", x.cmp(y));
                    env.emit_sign("sign", x.sign());
                    env.emit_u64("is_zero", x.is_zero() as u64);
                    env.emit_u64("is_one", x.is_one() as u64);
                }
                _ => exec_special(w, op, rest, env, stringify!($pool)),
            }
        }
    };
}

trait RatPool: Sized {
    fn put(self, w: &mut World, dst: usize);
}
impl RatPool for RBig {
    fn put(self, w: &mut World, dst: usize) {
        w.r[dst] = self;
    }
}
impl RatPool for Relaxed {
    fn put(self, w: &mut World, dst: usize) {
        w.x[dst] = self;
    }
}
/// result of a form with the integer on the left (a different operation from the one with the integer on the
/// right for - and /): stored the same way, compared only against its own reference form
fn rational_commuted<T: RatPool>(w: &mut World, pid: Pool, dst: usize, env: &mut Env, v: T) {
    v.put(w, dst);
    env.res(pid, dst);
}

exec_rational!(exec_r, RBig, r, Pool::R);
exec_rational!(exec_x, Relaxed, x, Pool::X);

/// operations that exist for one of the two types only
fn exec_special(w: &mut World, op: &Op, rest: &str, env: &mut Env, pool: &str) {
    let (a, b, dst) = (ix(op.a), ix(op.b), ix(op.dst));
    let take = op.form & 256 != 0;
    match (pool, rest) {
        ("r", "relax") => {
            w.x[dst] = own!(w.r[a], take).relax();
            env.res(Pool::X, dst);
        }
        ("r", "asrelaxed") => {
            w.x[dst] = w.r[a].as_relaxed().clone();
            env.res(Pool::X, dst);
        }
        ("x", "canon") => {
            w.r[dst] = own!(w.x[a], take).canonicalize();
            env.res(Pool::R, dst);
        }
        ("r", "hash") => {
            let h = sim_hash(&w.r[a]);
            let h2 = sim_hash(&w.r[b]);
            env.emit_u64("heq", (h == h2) as u64);
        }
        ("r", "static") => {
            let bank = crate::statics::rbank();
            let s = bank[op.n.unsigned_abs() as usize % bank.len()];
            let dst = ix(op.dst);
            match (op.form & 255) % 3 {
                0 => w.r[dst] = s.clone(),
                1 => w.r[dst].clone_from(s),
                _ => w.r[dst] = s + RBig::ZERO,
            }
            env.res(Pool::R, dst);
        }
        ("r", "isint") => {
            env.emit_u64("isint", w.r[a].is_int() as u64);
        }
        ("r", "simplest") => {
            let x = &w.r[a];
            let y = &w.r[b];
            if x.numerator().bit_len() + y.numerator().bit_len() > 1200 {
                return env.skip();
            }
            let (lo, hi) = if x <= y { (x.clone(), y.clone()) } else { (y.clone(), x.clone()) };
            if lo == hi {
                return env.skip();
            }
            w.r[dst] = RBig::simplest_in(lo, hi);
            env.res(Pool::R, dst);
        }
        ("r", "nearest") => {
            // farey_neighbors walks mediants one by one (linear in the limit): keep the limit small
            let lim = &(&w.u[b] % UBig::from(700u16) + UBig::ONE);
            if w.r[a].numerator().bit_len() > 1200 {
                return env.skip();
            }
            let r = match op.n.unsigned_abs() % 3 {
                0 => {
                    let r = w.r[a].nearest(lim);
                    env.emit_u64(
                        "side",
                        match &r {
                            Approximation::Exact(_) => 0,
                            Approximation::Inexact(_, Sign::Positive) => 1,
                            Approximation::Inexact(_, Sign::Negative) => 2,
                        },
                    );
                    r.value()
                }
                1 => w.r[a].next_up(lim),
                _ => w.r[a].next_down(lim),
            };
            w.r[dst] = r;
            env.res(Pool::R, dst);
        }
        _ => untracked(|| panic!("dsim: unknown rational op {}.{}", pool, rest)),
    }
}

#[allow(unused_imports)]
use {DivEuclid as _D, RemEuclid as _R, Signed as _S};


/// `rbig.reduce`: a fraction with a planted common factor whose parts have 150..350 words, reduced through the public
/// constructors / operators; value (cross-multiplication) and lowest terms are judged against num-bigint inside the step.
pub fn exec_rbig(w: &mut World, op: &Op, rest: &str, env: &mut Env) {
    use crate::view::{ibig_to_bigint, ubig_to_bigint};
    use num_integer::Integer;
    use num_traits::{One, Signed as _, Zero};
    if rest != "reduce" {
        untracked(|| panic!("dsim: unknown op rbig.{}", rest));
    }
    if cfg!(miri) {
        return env.skip();
    }
    let (a, b, c) = (ix(op.a), ix(op.b), ix(op.c));
    let sz = op.m.unsigned_abs() as usize;
    let wide = |seed: &UBig, bits: usize| -> UBig {
        // the seed's bit pattern repeated over the whole width (dense top words), top bit set
        let pat = (seed & UBig::ones(bits.min(4096))) | UBig::ONE;
        let step = pat.bit_len() + (bits % 3);
        let mut v = pat.clone();
        while v.bit_len() < bits {
            v = (&v << step) ^ &pat;
        }
        (v & UBig::ones(bits - 1)) | (UBig::ONE << (bits - 1))
    };
    // (a third of the time no planted factor: the operand shapes below reach the gcd unchanged)
    let g0 = if sz % 3 == 0 { UBig::ONE } else { (&w.u[c] & UBig::ones(1 + sz % 400)) | UBig::ONE };
    // lengths in words: both >= 300 half of the time; the word gap between the two and the leading zeros of the two
    // top words (independent of each other) are what select the paths of the guess
    let words_a = if sz % 2 == 0 { 300 + sz % 40 } else { 150 + sz % 60 };
    let word_gap = [0usize, 1, 2, 2, 2, 3, 1, 40][(op.n.unsigned_abs() % 8) as usize];
    let bits_a = 64 * words_a - (sz / 7) % 64;
    let bits_b = (64 * (words_a - word_gap)).saturating_sub((sz / 11) % 64).max(130);
    let (a0, b0) = (wide(&w.u[a], bits_a), wide(&w.u[b], bits_b));
    let num = IBig::from_parts(w.i[a].sign(), &g0 * &a0);
    let den = &g0 * &b0;
    let r: RBig = match (op.form & 255) % 3 {
        0 => RBig::from_parts(num.clone(), den.clone()),
        1 => Relaxed::from_parts(num.clone(), den.clone()).canonicalize(),
        _ => RBig::from(num.clone()) / RBig::from(den.clone()),
    };
    env.emit_u64("nbits", r.numerator().bit_len() as u64);
    env.emit_u64("dbits", r.denominator().bit_len() as u64);
    if env.ratio_oracle {
        let (rn, rd) = untracked(|| (ibig_to_bigint(r.numerator()), ubig_to_bigint(r.denominator())));
        let (n, d) = untracked(|| (ibig_to_bigint(&num), ubig_to_bigint(&den)));
        let verdict = untracked(|| {
            if rd.is_zero() {
                Some(("ratio.zero_denominator", "zero denominator".to_string()))
            } else if &rn * &d != &n * &rd {
                Some(("ratio.rbig_value", format!("{} / {} words with a planted factor of {} bits: the reduced fraction is another number", words_a, bits_b / 64, g0.bit_len())))
            } else if !rn.gcd(&rd).is_one() || rd.is_negative() || (rn.is_zero() && !rd.is_one()) {
                Some(("ratio.not_lowest_terms", format!("{} / {} words with a planted factor of {} bits: not in lowest terms (gcd of the result has {} bits)", words_a, bits_b / 64, g0.bit_len(), rn.gcd(&rd).bits())))
            } else {
                None
            }
        });
        if let Some((class, detail)) = verdict {
            env.violation = Some(untracked(|| (class.to_string(), detail)));
        }
    }
}
