#!/usr/bin/env python3
"""For every regression replay: revert the fix commit it belongs to in /repo, rebuild, replay it (must FAIL), restore.
Writes regressions/validation.json (merging when only some commits are given). Usage: regressions/validate.py [commit ...]"""
import glob, json, os, re, subprocess, sys, importlib.machinery, importlib.util
here = os.path.dirname(os.path.abspath(__file__))
loader = importlib.machinery.SourceFileLoader('verifdrv', os.path.join(here, '..', 'verif'))
spec = importlib.util.spec_from_loader('verifdrv', loader); v = importlib.util.module_from_spec(spec); loader.exec_module(v)
os.makedirs(os.path.join(v.BUILD, "tmp"), exist_ok=True)
assert subprocess.run(["git", "-C", "/repo", "status", "--porcelain"], capture_output=True, text=True).stdout.strip() == ""
by_commit = {}
for path in sorted(glob.glob(os.path.join(here, "*.json"))):
    if path.endswith("validation.json"):
        continue
    case = json.load(open(path))
    for c in re.findall(r"\b[0-9a-f]{7}\b", case.get("what", "")):
        by_commit.setdefault(c, []).append(path)
out_path = os.path.join(here, "validation.json")
only = sys.argv[1:]
res = json.load(open(out_path)) if only and os.path.exists(out_path) else {}
res = {k: v2 for k, v2 in res.items() if os.path.exists(os.path.join(here, k))}
for commit, paths in sorted(by_commit.items()):
    if only and commit not in only:
        continue
    d = subprocess.run(["git", "-C", "/repo", "diff", commit + "~1", commit], capture_output=True, text=True).stdout
    p = subprocess.run(["git", "-C", "/repo", "apply", "-R"], input=d, capture_output=True, text=True)
    if p.returncode != 0:
        for path in paths:
            res.setdefault(os.path.basename(path), {})[commit] = "cannot revert cleanly (a later commit touches the same lines)"
        continue
    try:
        cfgs = {"native-std-dev"}
        for path in paths:
            cfgs.update(json.load(open(path)).get("configs", []))
        v.build_many(sorted(cfgs))
        for path in paths:
            case = json.load(open(path))
            if case.get("configs"):
                a, b = case["configs"]
                bad = v.xbuild_differs(v.bin_path(a), v.bin_path(b), case) is not None
                cls = "xbuild difference"
            else:
                c2 = dict(case)
                if case["property"] == "C19":
                    c2["property"] = "C19M"
                kind, cls, detail, _ = v.exec_case(v.bin_path("native-std-dev"), c2)
                bad = kind == "violation"
            res.setdefault(os.path.basename(path), {})[commit] = ("FAILS with the fix reverted: %s" % cls) if bad else "passes although the fix is reverted"
            print(os.path.basename(path), commit, res[os.path.basename(path)][commit], flush=True)
    finally:
        subprocess.run(["git", "-C", "/repo", "checkout", "--", "."], check=True)
json.dump(res, open(out_path, "w"), indent=1, sort_keys=True)
v.build_many(["native-std-dev"])
